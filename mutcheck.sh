#!/bin/bash
# usage: mutcheck.sh <patch-file> <property>...   : apply a patch to a scratch worktree of /repo (with the
# current contract files copied in), run the named checks against it, remove the worktree.
set -u
PATCH=$(readlink -f "$1"); shift
D=$(mktemp -d /tmp/govc-mut.XXXXXX)
git -C /repo worktree add -q --detach "$D" HEAD >/dev/null 2>&1
for f in schema/verif_contracts.go schema/verif_instances.go schema/verif_harness.go atp/verif_contracts.go atp/verif_harness.go cmd/arcaflow-codegen/verif_contracts.go; do mkdir -p "$D/$(dirname $f)";
  [ -f /repo/$f ] && cp /repo/$f "$D/$f"
done
if ! git -C "$D" apply "$PATCH" 2>/tmp/mutcheck.err; then echo "PATCH DOES NOT APPLY: $(cat /tmp/mutcheck.err)"; git -C /repo worktree remove --force "$D"; exit 2; fi
rc=0
for P in "$@"; do
  /verif/bin/govc check --repo "$D" --property "$P" --no-evidence --replay-dir "$D/.replay" | grep -E "^(VIOLATION|KNOWN|ERROR|property)" | sed "s#$D#<scratch>#g"
done
git -C /repo worktree remove --force "$D"
exit $rc
