#!/usr/bin/env python3
"""mkharmless.py <name> <file> <python-regex> <replacement> : semantics-preserving edit (rename / reorder) as a patch under
selftest/harmless/; the suite must pass with it."""
import sys,subprocess,tempfile,os,re
name,rel,pat,rep=sys.argv[1:5]
wt=tempfile.mkdtemp(prefix='govc-mk.',dir='/tmp'); os.rmdir(wt)
subprocess.run(['git','-C','/repo','worktree','add','-q','--detach',wt,'HEAD'],check=True)
try:
    p=os.path.join(wt,rel); s=open(p).read()
    s2,n=re.subn(pat,rep,s,flags=re.S)
    assert n>0,'pattern not found'
    open(p,'w').write(s2)
    env=dict(os.environ,GOFLAGS='-mod=mod',GOPROXY='off',GOSUMDB='off',GOTOOLCHAIN='local')
    r=subprocess.run('gofmt -l . ; go build ./... && go test -vet=off -count=1 ./... 2>&1 | tail -3; cd cmd/arcaflow-codegen && go test -vet=off -count=1 ./... 2>&1 | tail -1',shell=True,cwd=wt,env=env,capture_output=True,text=True)
    print(n,'replacements;',r.stdout[-400:].replace('\n',' | '),r.stderr[-300:])
    subprocess.run(['git','-C',wt,'checkout','--','cmd/arcaflow-codegen/codegen'])
    d=subprocess.run(['git','-C',wt,'diff'],capture_output=True,text=True).stdout
    open('/verif/selftest/harmless/%s.patch'%name,'w').write(d)
finally:
    subprocess.run(['git','-C','/repo','worktree','remove','--force',wt])
