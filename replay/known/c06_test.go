package atp_test

// Replay of the known finding of C06 against the real code (lost wake-up at read-loop exit). The test FAILS while
// the defect is present. The window is a few instructions wide (between hasEntriesRemaining() returning false
// and the deferred "readLoopRunning = false"), so the replay widens it: replay/known/c06_run.sh injects, with
// `go test -overlay`, a copy of atp/client.go that differs from the real file by ONE added line - a sleep at that
// point. A sleep changes the schedule, not the semantics: every execution of the instrumented client is an
// execution the real client can have.
//
// Scenario: Execute A completes; while A's read loop is on its way out, Execute B registers its entry, sees
// readLoopRunning == true and starts no loop; the old loop exits; nobody reads B's result: B never returns.

import (
	"context"
	"io"
	"testing"
	"time"

	"go.arcalot.io/log/v2"
	"go.flow.arcalot.io/pluginsdk/atp"
	"go.flow.arcalot.io/pluginsdk/schema"
)

type knownC06Chan struct {
	io.Reader
	io.Writer
}

func (knownC06Chan) Close() error { return nil }

func TestKnownC06LostWakeup(t *testing.T) {
	ctx, cancel := context.WithCancel(context.Background())
	defer cancel()
	stdinReader, stdinWriter := io.Pipe()
	stdoutReader, stdoutWriter := io.Pipe()
	go func() { atp.RunATPServer(ctx, stdinReader, stdoutWriter, helloWorldSchema) }()
	cli := atp.NewClientWithLogger(knownC06Chan{Reader: stdoutReader, Writer: stdinWriter}, log.NewTestLogger(t))
	if _, err := cli.ReadSchema(); err != nil {
		t.Fatal(err)
	}
	run := func(id string) chan atp.ExecutionResult {
		out := make(chan atp.ExecutionResult, 1)
		go func() {
			out <- cli.Execute(schema.Input{RunID: id, ID: "hello-world", InputData: map[string]any{"name": id}}, nil, nil)
		}()
		return out
	}
	a := run("A")
	select {
	case r := <-a:
		if r.Error != nil {
			t.Fatal(r.Error)
		}
	case <-time.After(5 * time.Second):
		t.Fatal("Execute A did not return")
	}
	// A's read loop is now between "no entries remaining" and "readLoopRunning = false" (the injected sleep).
	b := run("B")
	select {
	case r := <-b:
		if r.Error != nil {
			t.Fatal(r.Error)
		}
	case <-time.After(5 * time.Second):
		t.Fatal("Execute B never returned: its entry was registered while the exiting read loop was still marked running, and no read loop is left to deliver its result")
	}
}
