#!/bin/bash
# Runs the C06 replay: atp/client.go with one added sleep (schedule only), injected with go test -overlay.
set -e
export GOFLAGS=-mod=mod GOPROXY=off GOSUMDB=off GOTOOLCHAIN=local
REPO=${1:-/repo}
D=$(mktemp -d /tmp/c06-replay.XXXXXX)
trap 'rm -rf "$D"' EXIT
python3 - "$REPO" "$D" <<'PY'
import sys,json
repo,d=sys.argv[1],sys.argv[2]
s=open(repo+'/atp/client.go').read()
old="\t\tif !c.hasEntriesRemaining() {\n\t\t\treturn\n\t\t}"
assert old in s, "anchor not found: the read loop exit has changed"
s=s.replace(old,"\t\tif !c.hasEntriesRemaining() {\n\t\t\ttime.Sleep(300 * time.Millisecond) // injected by the replay: widens the window, nothing else\n\t\t\treturn\n\t\t}",1)
open(d+'/client.go','w').write(s)
json.dump({"Replace":{repo+"/atp/client.go":d+"/client.go",repo+"/atp/zz_known_c06_test.go":"/verif/replay/known/c06_test.go"}},open(d+'/ov.json','w'))
PY
cd "$REPO" && go test -overlay "$D/ov.json" -vet=off -count=1 -timeout 60s -run '^TestKnownC06LostWakeup$' ./atp
