package schema

// Replays of the known findings of C12/C13 against the real code. Each test FAILS while the defect is present.
// Run: injected next to the package sources with `go test -overlay` (see /verif/bin/govc replay-known).

import (
	"testing"
)

type c12Inner struct {
	A string `json:"a"`
	B string `json:"b"`
}
type c12Outer struct {
	Inner c12Inner `json:"inner"`
}

// applySubObjectDefaultValues extends, in place, the map object that is stored in the schema's own default
// table when the (absent) sub-object property has a map default: the schema is changed by Unserialize.
func TestKnownC12SharedDefaultMapWritten(t *testing.T) {
	defB := `"dflt"`
	defInner := `{"a": "x"}`
	inner := NewStructMappedObjectSchema[c12Inner]("inner", map[string]*PropertySchema{
		"a": NewPropertySchema(NewStringSchema(nil, nil, nil), nil, false, nil, nil, nil, nil, nil),
		"b": NewPropertySchema(NewStringSchema(nil, nil, nil), nil, false, nil, nil, nil, &defB, nil),
	})
	outer := NewStructMappedObjectSchema[c12Outer]("outer", map[string]*PropertySchema{
		"inner": NewPropertySchema(inner, nil, false, nil, nil, nil, &defInner, nil),
	})
	before := len(outer.GetDefaults()["inner"].(map[string]any))
	if _, err := outer.Unserialize(map[string]any{}); err != nil {
		t.Fatal(err)
	}
	after := len(outer.GetDefaults()["inner"].(map[string]any))
	if before != after {
		t.Fatalf("Unserialize changed the schema's default table: default of 'inner' had %d keys, now %d: %v", before, after, outer.GetDefaults()["inner"])
	}
}

// GetDefaults fills o.defaultValues lazily for schemas that were not built by a constructor.
func TestKnownC12LazyDefaultsWrite(t *testing.T) {
	def := `"d"`
	o := &ObjectSchema{IDValue: "o", PropertiesValue: map[string]*PropertySchema{
		"p": NewPropertySchema(NewStringSchema(nil, nil, nil), nil, false, nil, nil, nil, &def, nil),
	}}
	if o.defaultValues != nil {
		t.Skip("already filled")
	}
	if _, err := o.Unserialize(map[string]any{}); err != nil {
		t.Fatal(err)
	}
	if o.defaultValues != nil {
		t.Fatalf("Unserialize wrote the schema: defaultValues filled lazily")
	}
}

// The unit definition caches are filled on first use.
func TestKnownC12UnitCachesWritten(t *testing.T) {
	u := NewUnits(NewUnit("B", "B", "byte", "bytes"), map[int64]*UnitDefinition{1024: NewUnit("kB", "kB", "kilobyte", "kilobytes")})
	if u.sortedMultipliersCache != nil || u.reCache != nil {
		t.Skip("already filled")
	}
	if _, err := u.ParseInt("1kB"); err != nil {
		t.Fatal(err)
	}
	if u.sortedMultipliersCache != nil || u.reCache != nil {
		t.Fatalf("ParseInt wrote the units definition: caches filled lazily (sortedMultipliersCache=%v)", u.sortedMultipliersCache)
	}
}
