package schema

// Replays of the known findings of C01 against the real code: each test FAILS while the defect is present.

import (
	"reflect"
	"testing"
)

// A one-of member with an any-typed property: Unserialize accepts a list of mixed element types, but Validate and
// Serialize of the result reject it, because OneOfSchema.validateMap checks the member with ValidateCompatibility
// (which demands homogeneous lists for `any`) instead of Validate.
func TestKnownC01OneOfAnyMixedList(t *testing.T) {
	scope := NewScopeSchema(
		NewObjectSchema("Root", map[string]*PropertySchema{
			"u": NewPropertySchema(NewOneOfStringSchema[any](map[string]Object{"a": NewRefSchema("A", nil)}, "_type", false), nil, true, nil, nil, nil, nil, nil),
		}),
		NewObjectSchema("A", map[string]*PropertySchema{
			"v": NewPropertySchema(NewAnySchema(), nil, false, nil, nil, nil, nil, nil),
		}),
	)
	u, err := scope.Unserialize(map[string]any{"u": map[string]any{"_type": "a", "v": []any{int64(1), "a"}}})
	if err != nil {
		t.Skip("rejected by Unserialize: the finding no longer applies in this form: ", err)
	}
	if err := scope.Validate(u); err != nil {
		t.Fatalf("accepted by Unserialize, rejected by Validate: %v", err)
	}
}

type knownC01Nested struct {
	Name string   `json:"name"`
	Tags []string `json:"tags"`
}

// A struct-mapped object with an absent optional list property: Unserialize leaves the field nil, Serialize writes
// an empty list for it, and unserializing that gives an empty non-nil slice: not the same value under DeepEqual.
func TestKnownC01AbsentListComesBackEmpty(t *testing.T) {
	s := NewStructMappedObjectSchema[knownC01Nested]("N", map[string]*PropertySchema{
		"name": NewPropertySchema(NewStringSchema(nil, nil, nil), nil, true, nil, nil, nil, nil, nil),
		"tags": NewPropertySchema(NewListSchema(NewStringSchema(nil, nil, nil), nil, nil), nil, false, nil, nil, nil, nil, nil),
	})
	u, err := s.Unserialize(map[string]any{"name": "n"})
	if err != nil {
		t.Fatal(err)
	}
	ser, err := s.Serialize(u)
	if err != nil {
		t.Fatal(err)
	}
	again, err := s.Unserialize(ser)
	if err != nil {
		t.Fatal(err)
	}
	if !reflect.DeepEqual(again, u) {
		t.Fatalf("round trip differs: %#v != %#v (serialized form %#v)", again, u, ser)
	}
}

type knownC01PtrDefault struct {
	Mode *string `json:"mode"`
}

// TestKnownC01EmptyPointerComesBackNil: an "empty means default" property mapped to an optional (pointer) field. An
// explicit empty value unserializes to a pointer to the empty value; Serialize leaves the property out because it is
// empty; unserializing that yields a nil pointer - not equal to the first value.
func TestKnownC01EmptyPointerComesBackNil(t *testing.T) {
	s := NewStructMappedObjectSchema[knownC01PtrDefault]("PtrDefault", map[string]*PropertySchema{
		"mode": NewPropertySchema(NewStringSchema(nil, nil, nil), nil, false, nil, nil, nil, nil, nil).TreatEmptyAsDefaultValue(),
	})
	u, err := s.Unserialize(map[string]any{"mode": ""})
	if err != nil {
		t.Skipf("input rejected: %v", err)
	}
	ser, err := s.Serialize(u)
	if err != nil {
		t.Fatalf("Serialize of an unserialized value failed: %v", err)
	}
	again, err := s.Unserialize(ser)
	if err != nil {
		t.Fatalf("Unserialize of the serialized form failed: %v", err)
	}
	if !reflect.DeepEqual(u, again) {
		t.Fatalf("round trip differs: %#v != %#v (serialized form %#v)", u, again, ser)
	}
}
