package atp_test

// Replay of the known finding of C07 against the real code. The test FAILS while the defect is present: the
// plugin process dies with "panic: send on closed channel" when its input ends while a step is still running and
// that step then fails (the server's run() closes the workDone channel as soon as the read loop ends; step and
// signal goroutines still send their errors on it). The scenario runs in a child process because the panic is in
// a goroutine of the server and takes the whole process down.

import (
	"context"
	"io"
	"os"
	"os/exec"
	"strings"
	"testing"
	"time"

	"github.com/fxamacker/cbor/v2"
	"go.flow.arcalot.io/pluginsdk/atp"
	"go.flow.arcalot.io/pluginsdk/schema"
)

type knownC07In struct {
	Name string `json:"name"`
}

func TestKnownC07SendOnClosedWorkDone(t *testing.T) {
	if os.Getenv("KNOWN_C07_CHILD") == "1" {
		knownC07Scenario()
		return
	}
	cmd := exec.Command(os.Args[0], "-test.run", "^TestKnownC07SendOnClosedWorkDone$", "-test.timeout", "30s")
	cmd.Env = append(os.Environ(), "KNOWN_C07_CHILD=1")
	out, err := cmd.CombinedOutput()
	if err != nil {
		s := string(out)
		if i := strings.Index(s, "panic:"); i >= 0 {
			s = s[i:]
		}
		if len(s) > 600 {
			s = s[:600]
		}
		t.Fatalf("the plugin process died: %v\n%s", err, s)
	}
}

func knownC07Scenario() {
	release := make(chan struct{})
	inputScope := schema.NewScopeSchema(schema.NewStructMappedObjectSchema[knownC07In]("In", map[string]*schema.PropertySchema{
		"name": schema.NewPropertySchema(schema.NewStringSchema(nil, nil, nil), nil, true, nil, nil, nil, nil, nil),
	}))
	outScope := schema.NewScopeSchema(schema.NewStructMappedObjectSchema[knownC07In]("Out", map[string]*schema.PropertySchema{
		"name": schema.NewPropertySchema(schema.NewStringSchema(nil, nil, nil), nil, true, nil, nil, nil, nil, nil),
	}))
	plugin := schema.NewCallableSchema(schema.NewCallableStep[knownC07In](
		"slow", inputScope,
		map[string]*schema.StepOutputSchema{"success": schema.NewStepOutputSchema(outScope, nil, false)},
		nil,
		func(_ context.Context, _ knownC07In) (string, any) {
			<-release
			return "undeclared-output", knownC07In{Name: "x"} // makes CallStep return an error
		},
	))
	stdinReader, stdinWriter := io.Pipe()
	stdoutReader, stdoutWriter := io.Pipe()
	done := make(chan struct{})
	go func() {
		atp.RunATPServer(context.Background(), stdinReader, stdoutWriter, plugin)
		close(done)
	}()
	enc := cbor.NewEncoder(stdinWriter)
	dec := cbor.NewDecoder(stdoutReader)
	_ = enc.Encode(nil)
	var hello atp.HelloMessage
	_ = dec.Decode(&hello)
	_ = enc.Encode(atp.RuntimeMessage{
		MessageID: atp.MessageTypeWorkStart, RunID: "r1",
		MessageData: atp.WorkStartMessage{StepID: "slow", Config: map[string]any{"name": "n"}},
	})
	time.Sleep(200 * time.Millisecond) // the step is now running
	_ = stdinWriter.Close()           // end of input: the read loop ends, run() closes workDone
	go func() { _, _ = io.Copy(io.Discard, stdoutReader) }()
	time.Sleep(200 * time.Millisecond)
	close(release) // the step now fails and reports its error on the closed channel
	select {
	case <-done:
	case <-time.After(5 * time.Second):
	}
	time.Sleep(200 * time.Millisecond)
}
