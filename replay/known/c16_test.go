package schema_test

// Replay for C16 against the real code: a repaired defect (fix: 689f5f2) - must PASS; it fails again if the defect returns.
// FormatShortInt / FormatLongInt computed each count with a float64 division; for integers above 2^53 the quotient
// could be one too large and the next count negative ("16PB-1TB1023GB..."), a text that ParseInt rejects.

import (
	"testing"

	"go.flow.arcalot.io/pluginsdk/schema"
)

func TestKnownC16LargeIntegerFormatting(t *testing.T) {
	for _, v := range []int64{1<<54 - 1, 1<<55 - 1, 1<<56 - 3, 1<<62 - 1, 1<<63 - 1} {
		for name, f := range map[string]func(int64) string{"short": schema.UnitBytes.FormatShortInt, "long": schema.UnitBytes.FormatLongInt} {
			s := f(v)
			got, err := schema.UnitBytes.ParseInt(s)
			if err != nil || got != v {
				t.Errorf("%s form of %d is %q, which parses to %d (err=%v)", name, v, s, got, err)
			}
		}
	}
}
