package schema

// Replays of the known findings of C10 against the real code: each test FAILS while the defect is present
// (a description accepted by the meta-schema makes the engine side panic at load or on first use).

import (
	"fmt"
	"testing"
)

func c10Scope(t *testing.T) map[string]any {
	s := NewScopeSchema(NewObjectSchema("A", map[string]*PropertySchema{
		"x": NewPropertySchema(NewIntSchema(nil, nil, nil), nil, false, nil, nil, nil, nil, nil),
		"r": NewPropertySchema(NewRefSchema("B", nil), nil, false, nil, nil, nil, nil, nil),
	}), NewObjectSchema("B", map[string]*PropertySchema{}))
	ser, err := s.SelfSerialize()
	if err != nil {
		t.Fatal(err)
	}
	return ser.(map[string]any)
}

// the serialized form nests map[any]any; normalise access
func c10Map(v any) map[any]any {
	switch m := v.(type) {
	case map[any]any:
		return m
	case map[string]any:
		out := map[any]any{}
		for k, x := range m {
			out[k] = x
		}
		return out
	}
	return nil
}

func c10NoPanic(t *testing.T, what string, f func()) {
	defer func() {
		if r := recover(); r != nil {
			t.Fatalf("%s panicked: %v", what, trunc(fmt.Sprint(r)))
		}
	}()
	f()
}

func trunc(s string) string {
	if len(s) > 160 {
		return s[:160]
	}
	return s
}

// UnserializeScope returns a scope whose references are not linked; first use panics.
func TestKnownC10UnlinkedAfterUnserializeScope(t *testing.T) {
	d := c10Scope(t)
	scope, err := UnserializeScope(d)
	if err != nil {
		t.Skip(err)
	}
	c10NoPanic(t, "Unserialize on the scope returned by UnserializeScope", func() {
		_, _ = scope.Unserialize(map[string]any{"r": map[string]any{}})
	})
}

// Root ID that is not among the objects: accepted at load, panic on first use.
func TestKnownC10MissingRoot(t *testing.T) {
	d := c10Scope(t)
	d["root"] = "Nope"
	scope, err := UnserializeScope(d)
	if err != nil {
		return // rejected with an error: fine
	}
	c10NoPanic(t, "first use of a scope with a missing root", func() {
		_, _ = scope.Unserialize(map[string]any{})
	})
}

// Dangling reference: panic inside ApplySelf (what UnserializeSchema runs at load).
func TestKnownC10DanglingReference(t *testing.T) {
	d := c10Scope(t)
	objs := c10Map(d["objects"])
	delete(objs, "B")
	d["objects"] = objs
	scope, err := UnserializeScope(d)
	if err != nil {
		return
	}
	c10NoPanic(t, "linking a scope with a dangling reference", func() { scope.ApplySelf() })
}

// Unparsable default: accepted at load, panic when the defaults are first needed.
func TestKnownC10BadDefault(t *testing.T) {
	d := c10Scope(t)
	objs := c10Map(d["objects"])
	a := c10Map(objs["A"])
	props := c10Map(a["properties"])
	x := c10Map(props["x"])
	x["default"] = "{not json"
	props["x"] = x
	delete(props, "r")
	a["properties"] = props
	objs["A"] = a
	d["objects"] = objs
	scope, err := UnserializeScope(d)
	if err != nil {
		return
	}
	c10NoPanic(t, "first use of a scope with an unparsable default", func() {
		_, _ = scope.Unserialize(map[string]any{})
	})
}
