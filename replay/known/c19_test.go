package main

// Replay of the known finding of C19 against the real code: FAILS while the defect is present.

import (
	"testing"

	"gopkg.in/yaml.v3"
)

func TestKnownC19NullProperty(t *testing.T) {
	var s schema
	doc := "steps:\n  create:\n    input:\n      objects:\n        Foo:\n          id: Foo\n          properties:\n            bar:\n"
	if err := yaml.Unmarshal([]byte(doc), &s); err != nil {
		t.Fatal(err)
	}
	defer func() {
		if r := recover(); r != nil {
			t.Fatalf("code generator panicked on a property whose value is null: %v", r)
		}
	}()
	_ = mustGenerateTypeDef(s)
}
