package schema_test

// Replays for C04 against the real code.
// TestKnownC04NaNMapKey: a repaired defect (fix: d306c8f) - must PASS; it fails again if the defect returns.
// TestKnownC04InlineShorthandCycle: a recorded known finding - FAILS while the defect is present.

import (
	"math"
	"os"
	"os/exec"
	"strings"
	"testing"

	"go.flow.arcalot.io/pluginsdk/schema"
)

func TestKnownC04NaNMapKey(t *testing.T) {
	try := func(name string, f func()) {
		defer func() {
			if r := recover(); r != nil {
				t.Errorf("%s panicked on a NaN map key: %v", name, r)
			}
		}()
		f()
	}
	nan := math.NaN()
	try("AnySchema.Unserialize", func() { _, _ = schema.NewAnySchema().Unserialize(map[any]any{nan: "x"}) })
	try("AnySchema.Validate", func() { _ = schema.NewAnySchema().Validate(map[any]any{nan: "x"}) })
	try("AnySchema.Serialize", func() { _, _ = schema.NewAnySchema().Serialize(map[float64]any{nan: "x"}) })
	ms := schema.NewMapSchema(schema.NewStringSchema(nil, nil, nil), schema.NewStringSchema(nil, nil, nil), nil, nil)
	try("MapSchema.Unserialize", func() { _, _ = ms.Unserialize(map[any]any{nan: "x"}) })
	try("MapSchema.Validate", func() { _ = ms.Validate(map[any]any{nan: "x"}) })
	try("MapSchema.Serialize", func() { _, _ = ms.Serialize(map[any]any{nan: "x"}) })
	try("MapSchema.ValidateCompatibility", func() { _ = ms.ValidateCompatibility(map[any]any{nan: "x"}) })
}

func TestKnownC04InlineShorthandCycle(t *testing.T) {
	if os.Getenv("KNOWN_C04_CHILD") == "1" {
		s := schema.NewScopeSchema(
			schema.NewObjectSchema("Node", map[string]*schema.PropertySchema{
				"next": schema.NewPropertySchema(schema.NewRefSchema("Node", nil), nil, false, nil, nil, nil, nil, nil),
			}),
		)
		_, _ = s.Unserialize("x") // a fatal stack overflow cannot be recovered: the child process dies here
		return
	}
	cmd := exec.Command(os.Args[0], "-test.run", "^TestKnownC04InlineShorthandCycle$")
	cmd.Env = append(os.Environ(), "KNOWN_C04_CHILD=1", "GOMEMLIMIT=1GiB")
	out, err := cmd.CombinedOutput()
	if err != nil {
		why := "child process died"
		if strings.Contains(string(out), "stack overflow") {
			why = "fatal error: stack overflow"
		}
		t.Fatalf("Unserialize(\"x\") on Node{next: ref Node} did not return: %s (%v)", why, err)
	}
}
