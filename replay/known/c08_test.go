package atp_test

// Replay of the known finding of C08 against the real code. The test FAILS while the defect is present:
// Client.Close panics ("potential deadlock ...") instead of returning an error when the client-done message
// cannot be written and the read loop does not end within 5 seconds (the server stream neither delivers data
// nor ends - e.g. a hung plugin whose stdin pipe is broken).

import (
	"errors"
	"fmt"
	"io"
	"testing"
	"time"

	"github.com/fxamacker/cbor/v2"
	"go.arcalot.io/log/v2"
	"go.flow.arcalot.io/pluginsdk/atp"
	"go.flow.arcalot.io/pluginsdk/schema"
)

type knownC08Writer struct {
	ok    int // number of writes that still succeed
	under io.Writer
}

func (w *knownC08Writer) Write(p []byte) (int, error) {
	if w.ok <= 0 {
		return 0, errors.New("broken pipe")
	}
	w.ok--
	return w.under.Write(p)
}

type knownC08Chan struct {
	io.Reader
	io.Writer
}

func (knownC08Chan) Close() error { return nil }

func TestKnownC08ClosePanics(t *testing.T) {
	toServerR, toServerW := io.Pipe()
	fromServerR, fromServerW := io.Pipe()
	go func() { _, _ = io.Copy(io.Discard, toServerR) }()
	// a minimal fake plugin: hello message with the hello-world schema, then silence (never answers, never ends)
	go func() {
		ser, err := helloWorldSchema.SelfSerialize()
		if err != nil {
			panic(err)
		}
		_ = cbor.NewEncoder(fromServerW).Encode(atp.HelloMessage{Version: 3, Schema: ser})
	}()
	w := &knownC08Writer{ok: 2, under: toServerW} // start-output message and one work-start get through
	cli := atp.NewClientWithLogger(knownC08Chan{Reader: fromServerR, Writer: w}, log.NewTestLogger(t))
	if _, err := cli.ReadSchema(); err != nil {
		t.Fatal(err)
	}
	go func() {
		_ = cli.Execute(schema.Input{RunID: "r", ID: "hello-world", InputData: map[string]any{"name": "n"}}, nil, nil)
	}()
	time.Sleep(300 * time.Millisecond) // the read loop is now blocked on the silent stream
	done := make(chan string, 1)
	go func() {
		defer func() {
			if r := recover(); r != nil {
				done <- fmt.Sprintf("Close panicked: %.200v", r)
			}
		}()
		err := cli.Close()
		done <- fmt.Sprintf("Close returned: %v", err)
	}()
	select {
	case s := <-done:
		if len(s) >= 14 && s[:14] == "Close panicked" {
			t.Fatal(s)
		}
	case <-time.After(20 * time.Second):
		t.Fatal("Close did not return")
	}
}
