#!/bin/bash
# usage: run.sh <repo> <pkgdir> <test-file under /verif/replay/known> <TestRegexp> [go test flags...]
# Injects the test file into the package with go test -overlay (the repository is not written) and runs it.
export GOFLAGS=-mod=mod GOPROXY=off GOSUMDB=off GOTOOLCHAIN=local
REPO=$1; PKG=$2; FILE=$3; TEST=$4; shift 4
D=$(mktemp -d /tmp/govc-known.XXXXXX)
trap 'rm -rf "$D"' EXIT
HERE=$(cd "$(dirname "$0")" && pwd)
MOD="$REPO"; PKGARG="./$PKG"
if [ "$PKG" = "cmd/arcaflow-codegen" ]; then MOD="$REPO/cmd/arcaflow-codegen"; PKGARG="."; fi
printf '{"Replace":{"%s/%s/zz_govc_known_test.go":"%s/%s"}}' "$REPO" "$PKG" "$HERE" "$FILE" > "$D/ov.json"
cd "$MOD" && go test -overlay "$D/ov.json" -vet=off -count=1 -timeout 180s "$@" -run "$TEST" "$PKGARG"
