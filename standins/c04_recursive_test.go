package schema_test

// Bounded stand-in for the part of C04 that no contract of the VC generator decides: termination on self-referential
// schemas ("never a panic or hang"). NOT a proof. Every cyclic scope of a small family (1..3 objects in a reference
// cycle, 1 or 2 properties per object, by-value references) is driven with every raw input of a small family through
// Unserialize, Validate, Serialize and data-mode ValidateCompatibility in a CHILD process (a stack overflow is fatal
// and cannot be recovered in-process). A case fails when the child dies or exceeds its time limit.

import (
	"fmt"
	"os"
	"os/exec"
	"strconv"
	"strings"
	"testing"
	"time"

	"go.flow.arcalot.io/pluginsdk/schema"
)

type c04Shape struct {
	objects int  // length of the reference cycle
	extra   bool // a second, optional string property on every object
}

func c04Scope(sh c04Shape) *schema.ScopeSchema {
	var objs []*schema.ObjectSchema
	for i := 0; i < sh.objects; i++ {
		props := map[string]*schema.PropertySchema{
			"next": schema.NewPropertySchema(schema.NewRefSchema(fmt.Sprintf("N%d", (i+1)%sh.objects), nil), nil, false, nil, nil, nil, nil, nil),
		}
		if sh.extra {
			props["label"] = schema.NewPropertySchema(schema.NewStringSchema(nil, nil, nil), nil, false, nil, nil, nil, nil, nil)
		}
		objs = append(objs, schema.NewObjectSchema(fmt.Sprintf("N%d", i), props))
	}
	return schema.NewScopeSchema(objs[0], objs[1:]...)
}

func c04Inputs() []any {
	return []any{nil, "x", int64(1), 1.5, true, []any{}, []any{"x"}, map[string]any{}, map[string]any{"next": "x"},
		map[string]any{"next": map[string]any{}}, map[string]any{"next": map[string]any{"next": nil}}, map[any]any{"next": int64(3)}}
}

var c04Ops = []string{"Unserialize", "Validate", "Serialize", "ValidateCompatibility"}

func c04Run(sh c04Shape, in any, op string) {
	s := c04Scope(sh)
	defer func() { _ = recover() }() // an ordinary panic is the business of the deductive sweep, not of this stand-in
	switch op {
	case "Unserialize":
		_, _ = s.Unserialize(in)
	case "Validate":
		_ = s.Validate(in)
	case "Serialize":
		_, _ = s.Serialize(in)
	case "ValidateCompatibility":
		_ = s.ValidateCompatibility(in)
	}
}

func TestStandinC04Recursive(t *testing.T) {
	shapes := []c04Shape{{1, false}, {1, true}, {2, false}, {2, true}, {3, false}}
	inputs := c04Inputs()
	if c := os.Getenv("STANDIN_C04_CHILD"); c != "" {
		// child: run one (shape, op) over every input; print a marker before each so the parent knows where it died
		p := strings.Split(c, ",")
		si, _ := strconv.Atoi(p[0])
		from, _ := strconv.Atoi(p[2])
		for ii, in := range inputs {
			if ii < from {
				continue
			}
			fmt.Printf("CASE %d\n", ii)
			os.Stdout.Sync()
			c04Run(shapes[si], in, p[1])
		}
		fmt.Println("CHILD-DONE")
		return
	}
	checked, failures := 0, 0
	for si, sh := range shapes {
		for _, op := range c04Ops {
			// quick tier: stop at the first input that kills the child; thorough tier: restart behind it
			for from := 0; from < len(inputs); {
				cmd := exec.Command(os.Args[0], "-test.run", "^TestStandinC04Recursive$")
				cmd.Env = append(os.Environ(), fmt.Sprintf("STANDIN_C04_CHILD=%d,%s,%d", si, op, from), "GOMEMLIMIT=1GiB")
				done := make(chan struct{})
				var out []byte
				go func() { out, _ = cmd.CombinedOutput(); close(done) }()
				select {
				case <-done:
				case <-time.After(60 * time.Second):
					_ = cmd.Process.Kill()
					<-done
				}
				if strings.Contains(string(out), "CHILD-DONE") {
					checked += len(inputs) - from
					break
				}
				last := from
				for _, l := range strings.Split(string(out), "\n") {
					if strings.HasPrefix(l, "CASE ") {
						last, _ = strconv.Atoi(strings.TrimPrefix(l, "CASE "))
					}
				}
				checked += last - from + 1
				why := "child died or timed out"
				if strings.Contains(string(out), "stack overflow") {
					why = "stack overflow (unbounded recursion)"
				}
				key := "other"
				// the recorded class: objects with exactly one property in a reference cycle, reached by the raw-data
				// operations with a non-map value somewhere an object is expected (the single-property shorthand
				// re-enters the cycle with the same value)
				if !sh.extra && (op == "Unserialize" || op == "ValidateCompatibility") && strings.Contains(why, "stack overflow") {
					key = "inline-shorthand-cycle"
				}
				failures++
				fmt.Printf("STANDIN-FAIL C04 key=%s cycle of %d objects, one property each=%v, %s(%#v): %s\n", key, sh.objects, !sh.extra, op, inputs[last], why)
				if os.Getenv("GOVC_TIER") != "thorough" {
					break
				}
				from = last + 1
			}
		}
	}
	fmt.Printf("STANDIN C04 checked=%d failures=%d bound=reference cycles of 1..3 objects with 1 or 2 properties x %d raw inputs x 4 operations, each in a child process\n", checked, failures, len(inputs))
}
