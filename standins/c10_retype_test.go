package schema

// Bounded stand-in for the part of C10 that is data, not code: which descriptions the schema-of-schemas (a 1300-line
// table of property definitions) lets through. NOT a proof. The contract verifier decides the code between "the
// meta-schema accepted the description" and first use; whether the table itself rejects a shape the code cannot
// handle (e.g. a map whose key type is a list) can only be observed by evaluating the table.
//
// Bound: every type node of a stated grammar (15 node shapes) placed at every type position of a small plugin
// description (property type, list items, map keys, map values, one-of member), positions nested up to depth 2
// (quick) or 3 (thorough), plus every such description with one key of its type subtree deleted; each accepted
// description is exercised with 15 fixed inputs through
// Unserialize / Validate / Serialize / ValidateCompatibility of the step input. A panic anywhere is a failure; an
// error return is always acceptable.

import (
	"fmt"
	"os"
	"strings"
	"testing"
)

func c10Nodes() map[string]func() map[string]any {
	str := func() map[string]any { return map[string]any{"type_id": "string"} }
	return map[string]func() map[string]any{
		"string":  str,
		"pattern": func() map[string]any { return map[string]any{"type_id": "pattern"} },
		"integer": func() map[string]any { return map[string]any{"type_id": "integer"} },
		"float":   func() map[string]any { return map[string]any{"type_id": "float"} },
		"bool":    func() map[string]any { return map[string]any{"type_id": "bool"} },
		"any":     func() map[string]any { return map[string]any{"type_id": "any"} },
		"enum_string": func() map[string]any {
			return map[string]any{"type_id": "enum_string", "values": map[string]any{"a": map[string]any{"name": "A"}, "b": map[string]any{"name": "B"}}}
		},
		"enum_integer": func() map[string]any {
			return map[string]any{"type_id": "enum_integer", "values": map[any]any{int64(1): map[string]any{"name": "one"}, int64(2): map[string]any{"name": "two"}}}
		},
		"list": func() map[string]any { return map[string]any{"type_id": "list", "items": str()} },
		"map": func() map[string]any {
			return map[string]any{"type_id": "map", "keys": str(), "values": str()}
		},
		"object1": func() map[string]any {
			return map[string]any{"type_id": "object", "id": "Inl1", "properties": map[string]any{"a": map[string]any{"type": str()}}}
		},
		"object0": func() map[string]any {
			return map[string]any{"type_id": "object", "id": "Inl0", "properties": map[string]any{}}
		},
		"ref": func() map[string]any { return map[string]any{"type_id": "ref", "id": "Key"} },
		"scope": func() map[string]any {
			return map[string]any{"type_id": "scope", "root": "S", "objects": map[string]any{
				"S": map[string]any{"id": "S", "properties": map[string]any{"a": map[string]any{"type": str()}}}}}
		},
		"one_of_string": func() map[string]any {
			return map[string]any{"type_id": "one_of_string", "discriminator_field_name": "_type", "types": map[string]any{
				"k": map[string]any{"type_id": "ref", "id": "Key"}}}
		},
	}
}

// contexts: a function that wraps a type node into the type of the property "m"
func c10Contexts() map[string]func(n map[string]any) map[string]any {
	str := map[string]any{"type_id": "string"}
	return map[string]func(n map[string]any) map[string]any{
		"property":   func(n map[string]any) map[string]any { return n },
		"list-items": func(n map[string]any) map[string]any { return map[string]any{"type_id": "list", "items": n} },
		"map-keys": func(n map[string]any) map[string]any {
			return map[string]any{"type_id": "map", "keys": n, "values": str}
		},
		"map-values": func(n map[string]any) map[string]any {
			return map[string]any{"type_id": "map", "keys": str, "values": n}
		},
		"oneof-member": func(n map[string]any) map[string]any {
			return map[string]any{"type_id": "one_of_string", "discriminator_field_name": "_type", "types": map[string]any{"x": n}}
		},
	}
}

func c10Description(ty map[string]any) map[string]any {
	return map[string]any{
		"steps": map[string]any{
			"st": map[string]any{
				"id": "st",
				"input": map[string]any{
					"root": "In",
					"objects": map[string]any{
						"In": map[string]any{"id": "In", "properties": map[string]any{
							"m": map[string]any{"type": ty, "required": false},
						}},
						"Key": map[string]any{"id": "Key", "properties": map[string]any{
							"a": map[string]any{"type": map[string]any{"type_id": "string"}, "required": false},
						}},
					},
				},
				"outputs": map[string]any{
					"success": map[string]any{"schema": map[string]any{
						"root": "Out", "objects": map[string]any{"Out": map[string]any{"id": "Out", "properties": map[string]any{}}},
					}},
				},
			},
		},
	}
}

func c10Inputs() []any {
	return []any{
		nil, "x", int64(1), 1.5, true, []any{"a"},
		map[string]any{},
		map[string]any{"m": "x"},
		map[string]any{"m": int64(1)},
		map[string]any{"m": []any{"a", int64(1)}},
		map[string]any{"m": map[string]any{"a": "b"}},
		map[string]any{"m": map[any]any{int64(1): "b", true: "c", 1.5: "d"}},
		map[string]any{"m": map[string]any{"_type": "x", "a": "b"}},
		map[string]any{"m": map[string]any{"_type": "k", "a": "b"}},
		map[string]any{"m": []any{map[string]any{"a": "b"}, map[any]any{"_type": "x"}}},
	}
}

// c10Paths: the key paths of a nested description (maps only)
func c10Paths(m map[string]any, prefix []string) [][]string {
	var out [][]string
	for k, v := range m {
		p := append(append([]string{}, prefix...), k)
		out = append(out, p)
		if sub, ok := v.(map[string]any); ok {
			out = append(out, c10Paths(sub, p)...)
		}
	}
	return out
}

func c10Delete(m map[string]any, path []string) {
	for i, k := range path {
		if i == len(path)-1 {
			delete(m, k)
			return
		}
		sub, ok := m[k].(map[string]any)
		if !ok {
			return
		}
		m = sub
	}
}

func TestStandinC10Retype(t *testing.T) {
	depth := 2
	if os.Getenv("GOVC_TIER") == "thorough" {
		depth = 3
	}
	nodes, ctxs := c10Nodes(), c10Contexts()
	type cand struct {
		name string
		ty   func() map[string]any
	}
	var cands []cand
	for nn, nf := range nodes {
		nn, nf := nn, nf
		for cn, cf := range ctxs {
			cn, cf := cn, cf
			cands = append(cands, cand{cn + "(" + nn + ")", func() map[string]any { return cf(nf()) }})
			if depth >= 2 {
				for cn2, cf2 := range ctxs {
					cn2, cf2 := cn2, cf2
					cands = append(cands, cand{cn2 + "(" + cn + "(" + nn + "))", func() map[string]any { return cf2(cf(nf())) }})
					if depth >= 3 {
						for cn3, cf3 := range ctxs {
							cn3, cf3 := cn3, cf3
							cands = append(cands, cand{cn3 + "(" + cn2 + "(" + cn + "(" + nn + ")))", func() map[string]any { return cf3(cf2(cf(nf()))) }})
						}
					}
				}
			}
		}
	}
	// deletion pass: every description above with ONE key of its type subtree deleted (a required child that the
	// meta-schema forgets to demand shows up as a panic at load or on first use)
	var dels []cand
	for _, c := range cands {
		c := c
		base := c.ty()
		for _, path := range c10Paths(base, nil) {
			path := path
			dels = append(dels, cand{c.name + " minus " + fmt.Sprint(path), func() map[string]any {
				t := c.ty()
				c10Delete(t, path)
				return t
			}})
		}
	}
	cands = append(cands, dels...)
	checked, accepted, failures := 0, 0, 0
	seenKey := map[string]bool{}
	unkeyed := 0
	report := func(format string, a ...any) {
		failures++
		msg := fmt.Sprintf(format, a...)
		// failures that are instances of a recorded known finding carry its key (printed once per key)
		key := ""
		switch {
		case strings.Contains(msg, "root object with ID"):
			key = "missing-root"
		case strings.Contains(msg, "Referenced object '"):
			key = "dangling-ref"
		}
		if key != "" {
			if !seenKey[key] {
				seenKey[key] = true
				fmt.Println("STANDIN-FAIL C10 key=" + key + " " + msg)
			}
			return
		}
		unkeyed++
		if unkeyed <= 20 {
			fmt.Println("STANDIN-FAIL C10 " + msg)
		}
	}
	for _, c := range cands {
		checked++
		var loaded *SchemaSchema
		func() {
			defer func() {
				if r := recover(); r != nil {
					report("description %s: UnserializeSchema panicked: %.200v", c.name, r)
				}
			}()
			l, err := UnserializeSchema(c10Description(c.ty()))
			if err == nil {
				loaded = l
			}
		}()
		if loaded == nil {
			continue
		}
		accepted++
		step := loaded.StepsValue["st"]
		if step == nil {
			continue
		}
		input := step.InputValue
		for i, data := range c10Inputs() {
			func() {
				defer func() {
					if r := recover(); r != nil {
						report("description %s accepted, then input #%d panics on first use: %.200v", c.name, i, r)
					}
				}()
				u, err := input.Unserialize(data)
				if err == nil {
					_ = input.Validate(u)
					_, _ = input.Serialize(u)
				}
				_ = input.Validate(data)
				_, _ = input.Serialize(data)
				_ = input.ValidateCompatibility(data)
			}()
		}
	}
	fmt.Printf("STANDIN C10 checked=%d failures=%d bound=%d type-node shapes x %d positions, nesting depth %d, %d descriptions (%d accepted by the meta-schema) x %d inputs\n",
		checked, failures, len(nodes), len(ctxs), depth, checked, accepted, len(c10Inputs()))
	if failures > 0 {
		t.Fail()
	}
}
