package schema

// Bounded stand-in for C16 (format then parse is the identity). NOT a proof: the string level of the unit
// code (Sprintf, TrimRight, the regular expression) is outside the reach of the contract verifier, so this
// enumerates a stated, finite domain against the real code. Injected with `go test -overlay` by govc.
//
// Bound: every integer in [0, N] (N = 20000 quick, 200000 thorough), powers of ten up to 10^15, every multiplier
// boundary m-1, m, m+1 and 2m+1, for the five built-in unit sets, short and long form; floats k/4 for k in [0, 40000]
// and sums of one or two multiplier units plus a fraction (m+0.5, 2m+1.5, m1+m2+1.5, 3*m1+2*m2+1.5), in short form.

import (
	"fmt"
	"math"
	"os"
	"testing"
)

func TestStandinC16RoundTrip(t *testing.T) {
	n := int64(20000)
	if os.Getenv("GOVC_TIER") == "thorough" {
		n = 200000
	}
	sets := map[string]*UnitsDefinition{
		"bytes": UnitBytes, "nanoseconds": UnitDurationNanoseconds, "seconds": UnitDurationSeconds,
		"characters": UnitCharacters, "percentage": UnitPercentage,
	}
	checked, failures := 0, 0
	report := func(format string, a ...any) {
		failures++
		if failures <= 20 {
			fmt.Printf("STANDIN-FAIL C16 "+format+"\n", a...)
		}
	}
	for name, u := range sets {
		var values []int64
		for i := int64(0); i <= n; i++ {
			values = append(values, i)
		}
		for p := int64(1); p <= 1000000000000000; p *= 10 {
			values = append(values, p, p+1, p-1)
		}
		for m := range u.MultipliersValue {
			values = append(values, m-1, m, m+1, 2*m+1)
		}
		// the upper end of the 64-bit range: integers a float64 cannot represent (2^k +- small odd offsets, k >= 53),
		// the maximum, and a fixed pseudo-random sample of 63-bit values
		for k := uint(52); k <= 62; k++ {
			p := int64(1) << k
			values = append(values, p-3, p-1, p, p+1, p+3, p+p/2+1)
		}
		values = append(values, math.MaxInt64, math.MaxInt64-1, math.MaxInt64-2)
		x := uint64(0x9E3779B97F4A7C15)
		for i := 0; i < 500; i++ {
			x ^= x << 13
			x ^= x >> 7
			x ^= x << 17
			values = append(values, int64(x>>1))
		}
		for _, v := range values {
			if v < 0 {
				continue
			}
			checked++
			s := u.FormatShortInt(v)
			got, err := u.ParseInt(s)
			if err != nil || got != v {
				report("units=%s short int %d formatted %q parsed %d err=%v", name, v, s, got, err)
			}
			l := u.FormatLongInt(v)
			got, err = u.ParseInt(l)
			if err != nil || got != v {
				report("units=%s long int %d formatted %q parsed %d err=%v", name, v, l, got, err)
			}
		}
		var floats []float64
		for k := 0; k <= 40000; k++ {
			floats = append(floats, float64(k)/4)
		}
		for m1 := range u.MultipliersValue {
			floats = append(floats, float64(m1)+0.5, float64(2*m1)+1.5)
			for m2 := range u.MultipliersValue {
				if m2 < m1 && m1 < 1<<40 {
					floats = append(floats, float64(m1+m2)+1.5, float64(3*m1+2*m2)+1.5, float64(3*m1+2*m2))
				}
			}
		}
		for _, f := range floats {
			checked++
			s := u.FormatShortFloat(f)
			got, err := u.ParseFloat(s)
			if err != nil || math.Abs(got-f) > 1e-6*math.Max(1, math.Abs(f)) {
				report("units=%s short float %v formatted %q parsed %v err=%v", name, f, s, got, err)
			}
		}
	}
	fmt.Printf("STANDIN C16 checked=%d failures=%d bound=[0,%d]+powers of ten+multiplier boundaries+2^52..2^63 boundaries+500 fixed 63-bit samples; floats k/4, k<=40000, multiplier sums\n", checked, failures, n)
	if failures > 0 {
		t.Fail()
	}
}
