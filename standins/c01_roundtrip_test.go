package schema

// Bounded stand-in for the container part of C01 (Serialize / Unserialize are mutual inverses, in memory and over
// CBOR). NOT a proof: deep equality of nested containers and the reflection-built struct mapping are outside the
// reach of the contract verifier (which proves the scalar kinds and the per-function contracts), so this enumerates
// a stated, finite family of schemas and raw inputs against the real code, through the real CBOR codec.
//
// Bound: 17 leaf schemas (int/float/string/bool/pattern/enums/any, with and without bounds and units) x their raw
// representations (int, int64, uint64, float64, numeric strings, ...); containers list / map[string] / map[int64] /
// map-based object (required, default, required_if, conflicts) / one-of (inlined and non-inlined discriminator) /
// scope+ref over every leaf, nested to depth 2 (quick) or 3 (thorough); six struct-mapped object shapes (treat-empty-as-default and presence rules; by-value sub-objects with nested
// defaults as typed object, plain struct-mapped object and reference); every accepted input goes through: Validate, Serialize, CBOR
// encode+decode, Unserialize of both forms, deep equality, re-serialization equality.

import (
	"fmt"
	"os"
	"reflect"
	"strings"
	"testing"

	"github.com/fxamacker/cbor/v2"
)

type c01Case struct {
	name string
	s    Type
	raws []any
}

func c01P[T any](v T) *T { return &v }

func c01Leaves() []c01Case {
	dv := func(n string) *DisplayValue { return NewDisplayValue(c01P(n), nil, nil) }
	ints := []any{int64(0), int64(5), int64(-3), int(7), uint64(9), uint8(2), int32(-1), float64(4), float64(4.5), "12", "-7", "x", true, nil, uint64(1 << 63)}
	floats := []any{float64(0), float64(1.5), float32(2.5), int64(3), uint64(4), "1.25", "abc", -0.0, nil}
	strs := []any{"", "a", "hello", "héllo", int64(12), uint64(3), 1.5, true, nil, []byte("ab")}
	bools := []any{true, false, "true", "no", "YES", "maybe", int64(1), int64(0), int64(2), uint64(1), 1.0, nil}
	return []c01Case{
		{"int", NewIntSchema(nil, nil, nil), ints},
		{"int[0,10]", NewIntSchema(c01P(int64(0)), c01P(int64(10)), nil), ints},
		{"int-bytes", NewIntSchema(nil, nil, UnitBytes), append(append([]any{}, ints...), "5kB", "1MB 3B", "2 B")},
		{"int-ns", NewIntSchema(c01P(int64(0)), nil, UnitDurationNanoseconds), append(append([]any{}, ints...), "5s", "1m1s", "100ms")},
		{"float", NewFloatSchema(nil, nil, nil), floats},
		{"float[0,2]", NewFloatSchema(c01P(0.0), c01P(2.0), nil), floats},
		{"float-s", NewFloatSchema(nil, nil, UnitDurationSeconds), append(append([]any{}, floats...), "1.5s", "1m", "2h 0.5s")},
		{"string", NewStringSchema(nil, nil, nil), strs},
		{"string[1,5]", NewStringSchema(c01P(int64(1)), c01P(int64(5)), nil), strs},
		{"bool", NewBoolSchema(), bools},
		{"enum_string", NewStringEnumSchema(map[string]*DisplayValue{"a": dv("A"), "b": dv("B")}), []any{"a", "b", "c", int64(1), nil}},
		{"enum_int", NewIntEnumSchema(map[int64]*DisplayValue{1: dv("one"), 2: dv("two")}, nil), []any{int64(1), uint64(2), int(1), 2.0, "1", int64(3), nil}},
		{"pattern", NewPatternSchema(), []any{"^a+$", "[", int64(1), nil}},
		{"any", NewAnySchema(), []any{int64(1), uint64(2), 1.5, "s", true, []any{int64(1), "a"}, map[string]any{"k": int64(1)}, map[any]any{"k": []any{"x"}}, int(3), nil}},
	}
}

// containers over a case: each returns a new case whose raws embed the element raws
func c01Containers(c c01Case) []c01Case {
	var out []c01Case
	listRaws := []any{[]any{}}
	for _, r := range c.raws {
		listRaws = append(listRaws, []any{r}, []any{r, r})
	}
	out = append(out, c01Case{"list(" + c.name + ")", NewListSchema(c.s, nil, nil), listRaws})
	var mapRaws, imapRaws, objRaws, oneofRaws []any
	mapRaws = append(mapRaws, map[string]any{}, map[any]any{})
	for _, r := range c.raws {
		mapRaws = append(mapRaws, map[string]any{"k": r}, map[any]any{"k": r, "j": r})
		imapRaws = append(imapRaws, map[any]any{int64(1): r}, map[any]any{uint64(2): r, "3": r}, map[int64]any{4: r})
		objRaws = append(objRaws, map[string]any{"req": r}, map[any]any{"req": r, "opt": r}, map[string]any{"opt": r}, map[string]any{"req": r, "other": r}, map[string]any{"req": r, "opt": r, "other": r})
		oneofRaws = append(oneofRaws, map[string]any{"_type": "a", "v": r}, map[any]any{"_type": "b", "v": r, "kind": "b"}, map[string]any{"_type": "c", "v": r}, map[string]any{"v": r})
	}
	out = append(out, c01Case{"map[string](" + c.name + ")", NewMapSchema(NewStringSchema(nil, nil, nil), c.s, nil, nil), mapRaws})
	out = append(out, c01Case{"map[int](" + c.name + ")", NewMapSchema(NewIntSchema(nil, nil, nil), c.s, nil, nil), imapRaws})
	obj := NewObjectSchema("O", map[string]*PropertySchema{
		"req":   NewPropertySchema(c.s, nil, true, nil, nil, nil, nil, nil),
		"opt":   NewPropertySchema(c.s, nil, false, nil, nil, nil, nil, nil),
		"other": NewPropertySchema(c.s, nil, false, []string{"opt"}, nil, nil, nil, nil),
	})
	out = append(out, c01Case{"object(" + c.name + ")", obj, objRaws})
	scope := NewScopeSchema(
		NewObjectSchema("Root", map[string]*PropertySchema{
			"req": NewPropertySchema(NewRefSchema("Leaf", nil), nil, true, nil, nil, nil, nil, nil),
		}),
		NewObjectSchema("Leaf", map[string]*PropertySchema{
			"v": NewPropertySchema(c.s, nil, false, nil, nil, nil, nil, nil),
		}),
	)
	var scopeRaws []any
	for _, r := range c.raws {
		scopeRaws = append(scopeRaws, map[string]any{"req": map[string]any{"v": r}}, map[any]any{"req": map[any]any{}}, map[string]any{"req": r})
	}
	out = append(out, c01Case{"scope(" + c.name + ")", scope, scopeRaws})
	oneofScope := func(inlineA, typedEnum bool) *ScopeSchema {
		propsA := map[string]*PropertySchema{"v": NewPropertySchema(c.s, nil, false, nil, nil, nil, nil, nil)}
		propsB := map[string]*PropertySchema{"v": NewPropertySchema(c.s, nil, false, nil, nil, nil, nil, nil),
			"kind": NewPropertySchema(NewStringSchema(nil, nil, nil), nil, false, nil, nil, nil, nil, nil)}
		if inlineA {
			disc := func() Type { return NewStringSchema(nil, nil, nil) }
			if typedEnum {
				// the members declare the inlined discriminator as a typed string enum (a named Go string type)
				disc = func() Type {
					return NewTypedStringEnumSchema[c01Kind](map[c01Kind]*DisplayValue{"a": nil, "b": nil})
				}
			}
			propsA["_type"] = NewPropertySchema(disc(), nil, true, nil, nil, nil, nil, nil)
			propsB["_type"] = NewPropertySchema(disc(), nil, true, nil, nil, nil, nil, nil)
		}
		return NewScopeSchema(
			NewObjectSchema("Root", map[string]*PropertySchema{
				"u": NewPropertySchema(NewOneOfStringSchema[any](map[string]Object{
					"a": NewRefSchema("A", nil), "b": NewRefSchema("B", nil),
				}, "_type", inlineA), nil, true, nil, nil, nil, nil, nil),
			}),
			NewObjectSchema("A", propsA), NewObjectSchema("B", propsB),
		)
	}
	var ooRaws []any
	for _, r := range oneofRaws {
		ooRaws = append(ooRaws, map[string]any{"u": r})
	}
	out = append(out, c01Case{"oneof(" + c.name + ")", oneofScope(false, false), ooRaws})
	out = append(out, c01Case{"oneof-inlined(" + c.name + ")", oneofScope(true, false), ooRaws})
	out = append(out, c01Case{"oneof-inlined-enum(" + c.name + ")", oneofScope(true, true), ooRaws})
	return out
}

type c01Kind string

type c01Conflict struct {
	Mode   string  `json:"mode"`
	Custom *string `json:"custom"`
}
type c01ReqIf struct {
	Mode    string `json:"mode"`
	Timeout *int64 `json:"timeout"`
	Count   int64  `json:"count"`
}
type c01Tuning struct {
	Mode    string `json:"mode"`
	Workers int64  `json:"workers"`
}
type c01WithTuning struct {
	Name   string     `json:"name"`
	Tuning c01Tuning  `json:"tuning"`
	Extra  *c01Tuning `json:"extra"`
}

type c01PtrDefault struct {
	Mode  *string `json:"mode"`
	Level *int64  `json:"level"`
	Name  string  `json:"name"`
}

type c01Nested struct {
	Name  string       `json:"name"`
	Inner c01Conflict  `json:"inner"`
	Ptr   *c01Conflict `json:"ptr"`
	Tags  []string     `json:"tags"`
}

func c01Structs() []c01Case {
	str := func() *StringSchema { return NewStringSchema(nil, nil, nil) }
	conflict := func() *ObjectSchema {
		return NewStructMappedObjectSchema[c01Conflict]("Conflict", map[string]*PropertySchema{
			"mode":   NewPropertySchema(str(), nil, false, nil, nil, []string{"custom"}, nil, nil).TreatEmptyAsDefaultValue(),
			"custom": NewPropertySchema(str(), nil, false, nil, nil, nil, nil, nil),
		})
	}
	reqif := NewStructMappedObjectSchema[c01ReqIf]("ReqIf", map[string]*PropertySchema{
		"mode":    NewPropertySchema(str(), nil, false, nil, nil, nil, nil, nil).TreatEmptyAsDefaultValue(),
		"timeout": NewPropertySchema(NewIntSchema(nil, nil, nil), nil, false, []string{"mode"}, nil, nil, nil, nil),
		"count":   NewPropertySchema(NewIntSchema(nil, nil, nil), nil, false, nil, nil, nil, c01P("3"), nil),
	})
	// "empty means default" properties that are mapped to optional (pointer) fields: a non-nil pointer is compared
	// with the zero value of the pointed-to type
	ptrDefault := NewStructMappedObjectSchema[c01PtrDefault]("PtrDefault", map[string]*PropertySchema{
		"mode":  NewPropertySchema(str(), nil, false, nil, nil, nil, nil, nil).TreatEmptyAsDefaultValue(),
		"level": NewPropertySchema(NewIntSchema(nil, nil, nil), nil, false, nil, nil, nil, nil, nil).TreatEmptyAsDefaultValue(),
		"name":  NewPropertySchema(str(), nil, false, nil, nil, nil, nil, nil),
	})
	nested := NewStructMappedObjectSchema[c01Nested]("Nested", map[string]*PropertySchema{
		"name":  NewPropertySchema(str(), nil, true, nil, nil, nil, nil, nil),
		"inner": NewPropertySchema(conflict(), nil, false, nil, nil, nil, nil, nil),
		"ptr":   NewPropertySchema(conflict(), nil, false, nil, nil, nil, nil, nil),
		"tags":  NewPropertySchema(NewListSchema(str(), nil, nil), nil, false, nil, nil, nil, nil, nil),
	})
	// nested by-value sub-objects whose defaults must be filled in (the Go zero value of the sub-struct is not valid):
	// as a typed object (generic wrapper), as a plain struct-mapped object, and behind a reference
	tuningProps := func() map[string]*PropertySchema {
		return map[string]*PropertySchema{
			"mode":    NewPropertySchema(NewStringEnumSchema(map[string]*DisplayValue{"fast": nil, "safe": nil}), nil, false, nil, nil, nil, c01P(`"safe"`), nil),
			"workers": NewPropertySchema(NewIntSchema(c01P(int64(1)), c01P(int64(64)), nil), nil, false, nil, nil, nil, c01P(`4`), nil),
		}
	}
	withTuning := func(sub Type, extra Type) *ObjectSchema {
		return NewStructMappedObjectSchema[c01WithTuning]("WithTuning", map[string]*PropertySchema{
			"name":   NewPropertySchema(str(), nil, true, nil, nil, nil, nil, nil),
			"tuning": NewPropertySchema(sub, nil, false, nil, nil, nil, nil, nil),
			"extra":  NewPropertySchema(extra, nil, false, nil, nil, nil, nil, nil),
		})
	}
	tuningRaws := []any{map[string]any{"name": "x"}, map[string]any{"name": "x", "tuning": map[string]any{"mode": "fast"}}, map[string]any{"name": "x", "tuning": map[string]any{"workers": uint64(8)}, "extra": map[string]any{}}, map[any]any{"name": "x", "extra": map[any]any{"mode": "fast", "workers": "2"}}}
	typedSub := withTuning(NewTypedObject[c01Tuning]("Tuning", tuningProps()), NewTypedObject[*c01Tuning]("Tuning", tuningProps()))
	plainSub := withTuning(NewStructMappedObjectSchema[c01Tuning]("Tuning", tuningProps()), NewStructMappedObjectSchema[*c01Tuning]("Tuning", tuningProps()))
	refScope := NewScopeSchema(
		withTuning(NewRefSchema("Tuning", nil), NewStructMappedObjectSchema[*c01Tuning]("TuningP", tuningProps())),
		NewStructMappedObjectSchema[c01Tuning]("Tuning", tuningProps()),
	)
	return []c01Case{
		{"struct-sub-typedobject", typedSub, tuningRaws},
		{"struct-sub-plain", plainSub, tuningRaws},
		{"struct-sub-ref", refScope, tuningRaws},
		{"struct-conflict", conflict(), []any{map[string]any{}, map[string]any{"mode": "m"}, map[string]any{"custom": "c"}, map[string]any{"mode": "", "custom": "c"}, map[any]any{"mode": "m", "custom": "c"}, "x"}},
		{"struct-requiredif", reqif, []any{map[string]any{}, map[string]any{"mode": "m"}, map[string]any{"mode": "m", "timeout": int64(1)}, map[string]any{"mode": ""}, map[string]any{"mode": "", "timeout": uint64(2)}, map[string]any{"count": "5"}, map[string]any{"timeout": 1}}},
		{"struct-ptr-emptydefault", ptrDefault, []any{map[string]any{}, map[string]any{"mode": "m"}, map[string]any{"mode": ""}, map[string]any{"level": int64(0), "name": "n"}, map[any]any{"mode": "m", "level": uint64(7)}}},
		{"struct-nested", nested, []any{map[string]any{"name": "n"}, map[string]any{"name": "n", "inner": map[string]any{"custom": "c"}}, map[any]any{"name": "n", "ptr": map[any]any{"mode": "m"}, "tags": []any{"a", "b"}}, map[string]any{"name": "n", "inner": map[string]any{"mode": ""}, "tags": []any{}}, map[string]any{}}},
	}
}

// c01EqEmptyPtr: deep equality that identifies a nil pointer with a pointer to the zero value
func c01EqEmptyPtr(a, b reflect.Value) bool {
	if !a.IsValid() || !b.IsValid() {
		return a.IsValid() == b.IsValid()
	}
	if a.Type() != b.Type() {
		return false
	}
	switch a.Kind() {
	case reflect.Pointer:
		if a.IsNil() && b.IsNil() {
			return true
		}
		if a.IsNil() {
			return b.Elem().IsZero()
		}
		if b.IsNil() {
			return a.Elem().IsZero()
		}
		return c01EqEmptyPtr(a.Elem(), b.Elem())
	case reflect.Interface:
		if a.IsNil() || b.IsNil() {
			return a.IsNil() == b.IsNil()
		}
		return c01EqEmptyPtr(a.Elem(), b.Elem())
	case reflect.Struct:
		for i := 0; i < a.NumField(); i++ {
			if !c01EqEmptyPtr(a.Field(i), b.Field(i)) {
				return false
			}
		}
		return true
	}
	return reflect.DeepEqual(a.Interface(), b.Interface())
}

// c01EqNilEmpty: deep equality that identifies a nil slice / map with an empty one
func c01EqNilEmpty(a, b reflect.Value) bool {
	if !a.IsValid() || !b.IsValid() {
		return a.IsValid() == b.IsValid()
	}
	if a.Type() != b.Type() {
		return false
	}
	switch a.Kind() {
	case reflect.Slice:
		if a.Len() != b.Len() {
			return false
		}
		for i := 0; i < a.Len(); i++ {
			if !c01EqNilEmpty(a.Index(i), b.Index(i)) {
				return false
			}
		}
		return true
	case reflect.Map:
		if a.Len() != b.Len() {
			return false
		}
		for _, k := range a.MapKeys() {
			bv := b.MapIndex(k)
			if !bv.IsValid() || !c01EqNilEmpty(a.MapIndex(k), bv) {
				return false
			}
		}
		return true
	case reflect.Pointer, reflect.Interface:
		if a.IsNil() || b.IsNil() {
			return a.IsNil() == b.IsNil()
		}
		return c01EqNilEmpty(a.Elem(), b.Elem())
	case reflect.Struct:
		for i := 0; i < a.NumField(); i++ {
			if !c01EqNilEmpty(a.Field(i), b.Field(i)) {
				return false
			}
		}
		return true
	}
	return reflect.DeepEqual(a.Interface(), b.Interface())
}

func TestStandinC01RoundTrip(t *testing.T) {
	depth := 2
	if os.Getenv("GOVC_TIER") == "thorough" {
		depth = 3
	}
	level := c01Leaves()
	cases := append([]c01Case{}, level...)
	for d := 2; d <= depth; d++ {
		var next []c01Case
		for i, c := range level {
			cs := c01Containers(c)
			if d == 3 {
				// depth 3: keep the growth bounded by rotating through the container kinds
				cs = []c01Case{cs[i%len(cs)], cs[(i+3)%len(cs)]}
			}
			next = append(next, cs...)
		}
		cases = append(cases, next...)
		level = next
	}
	cases = append(cases, c01Structs()...)
	checked, accepted, failures := 0, 0, 0
	seenKey := map[string]bool{}
	unkeyed := 0
	// failures that fall into a recognised class carry a key (one line per key); everything else is printed as it is
	reportK := func(key string, format string, a ...any) {
		failures++
		if key != "" {
			if !seenKey[key] {
				seenKey[key] = true
				fmt.Printf("STANDIN-FAIL C01 key="+key+" "+format+"\n", a...)
			}
			return
		}
		unkeyed++
		if unkeyed <= 20 {
			fmt.Printf("STANDIN-FAIL C01 "+format+"\n", a...)
		}
	}
	report := func(format string, a ...any) { reportK("", format, a...) }
	oneofAny := func(name string) bool {
		// a one-of somewhere above an any-typed value
		i := strings.Index(name, "oneof")
		return i >= 0 && strings.Contains(name[i:], "any")
	}
	for _, c := range cases {
		for ri, raw := range c.raws {
			checked++
			func() {
				defer func() {
					if r := recover(); r != nil {
						report("schema %s input #%d (%#v): panic %.150v", c.name, ri, raw, r)
					}
				}()
				u, err := c.s.Unserialize(raw)
				if err != nil {
					return
				}
				accepted++
				if err := c.s.Validate(u); err != nil {
					key := ""
					if oneofAny(c.name) && strings.Contains(err.Error(), "lists should have homogeneous types") {
						key = "fails-validate:oneof-any-mixed-list"
					}
					reportK(key, "schema %s input #%d (%#v): accepted by Unserialize but the result fails Validate: %.300v", c.name, ri, raw, err)
					return
				}
				ser, err := c.s.Serialize(u)
				if err != nil {
					key := ""
					if oneofAny(c.name) && strings.Contains(err.Error(), "lists should have homogeneous types") {
						key = "fails-validate:oneof-any-mixed-list"
					}
					reportK(key, "schema %s input #%d (%#v): accepted by Unserialize but the result does not Serialize: %.300v", c.name, ri, raw, err)
					return
				}
				enc, err := cbor.Marshal(ser)
				if err != nil {
					report("schema %s input #%d: serialized form is not CBOR-encodable: %v", c.name, ri, err)
					return
				}
				var wire any
				if err := cbor.Unmarshal(enc, &wire); err != nil {
					report("schema %s input #%d: CBOR decode: %v", c.name, ri, err)
					return
				}
				for fname, form := range map[string]any{"memory": ser, "wire": wire} {
					again, err := c.s.Unserialize(form)
					if err != nil {
						report("schema %s input #%d (%#v): %s form %#v rejected: %v", c.name, ri, raw, fname, form, err)
						continue
					}
					if !reflect.DeepEqual(again, u) {
						key := ""
						if c01EqNilEmpty(reflect.ValueOf(again), reflect.ValueOf(u)) {
							key = "nil-vs-empty:" + c.name
						} else if c01EqEmptyPtr(reflect.ValueOf(again), reflect.ValueOf(u)) {
							key = "emptyptr-vs-nil:" + c.name
						}
						reportK(key, "schema %s input #%d (%#v): %s round trip differs: %#v != %#v", c.name, ri, raw, fname, again, u)
						continue
					}
					ser2, err := c.s.Serialize(again)
					if err != nil || !reflect.DeepEqual(ser2, ser) {
						report("schema %s input #%d (%#v): %s re-serialization differs: %#v != %#v (%v)", c.name, ri, raw, fname, ser2, ser, err)
					}
				}
			}()
		}
	}
	fmt.Printf("STANDIN C01 checked=%d failures=%d bound=%d schemas (leaf kinds nested to depth %d, 7 struct-mapped shapes), %d (schema, raw input) pairs, %d accepted and round-tripped in memory and through CBOR\n",
		checked, failures, len(cases), depth, checked, accepted)
	if failures > 0 {
		t.Fail()
	}
}
