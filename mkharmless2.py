#!/usr/bin/env python3
"""mkharmless2.py <name> <file> old1 new1 [old2 new2 ...] : semantics-preserving edit as literal replacements"""
import sys,subprocess,tempfile,os
name,rel=sys.argv[1:3]; pairs=sys.argv[3:]
wt=tempfile.mkdtemp(prefix='govc-mk.',dir='/tmp'); os.rmdir(wt)
subprocess.run(['git','-C','/repo','worktree','add','-q','--detach',wt,'HEAD'],check=True)
try:
    p=os.path.join(wt,rel); s=open(p).read()
    for i in range(0,len(pairs),2):
        old=pairs[i].encode().decode('unicode_escape'); new=pairs[i+1].encode().decode('unicode_escape')
        assert old in s, 'not found: '+old
        s=s.replace(old,new)
    open(p,'w').write(s)
    env=dict(os.environ,GOFLAGS='-mod=mod',GOPROXY='off',GOSUMDB='off',GOTOOLCHAIN='local')
    r=subprocess.run('gofmt -l . ; go build ./... && go test -vet=off -count=1 ./... 2>&1 | tail -2; cd cmd/arcaflow-codegen && go test -vet=off -count=1 ./... 2>&1 | tail -1',shell=True,cwd=wt,env=env,capture_output=True,text=True)
    print(r.stdout[-300:].replace('\n',' | '),r.stderr[-300:])
    subprocess.run(['git','-C',wt,'checkout','--','cmd/arcaflow-codegen/codegen'])
    d=subprocess.run(['git','-C',wt,'diff'],capture_output=True,text=True).stdout
    open('/verif/selftest/harmless/%s.patch'%name,'w').write(d)
finally:
    subprocess.run(['git','-C','/repo','worktree','remove','--force',wt])
