#!/usr/bin/env python3
"""mkmutant.py <name> <file-relative-to-repo> <old> <new>  : writes selftest/mutants/<name>.patch replacing the first
occurrence of <old> by <new> in the file (in a scratch worktree; /repo is not touched)."""
import sys,subprocess,tempfile,os
name,rel,old,new=sys.argv[1:5]
wt=tempfile.mkdtemp(prefix='govc-mk.',dir='/tmp'); os.rmdir(wt)
subprocess.run(['git','-C','/repo','worktree','add','-q','--detach',wt,'HEAD'],check=True)
try:
    p=os.path.join(wt,rel); s=open(p).read()
    old=old.encode().decode('unicode_escape'); new=new.encode().decode('unicode_escape')
    assert old in s, 'pattern not found'
    open(p,'w').write(s.replace(old,new,1))
    env=dict(os.environ,GOFLAGS='-mod=mod',GOPROXY='off',GOSUMDB='off',GOTOOLCHAIN='local')
    r=subprocess.run('go build ./... && go test -vet=off -count=1 ./... 2>&1 | tail -3',shell=True,cwd=wt,env=env,capture_output=True,text=True)
    print(r.stdout[-300:],r.stderr[-300:])
    subprocess.run(['git','-C',wt,'checkout','--','cmd/arcaflow-codegen/codegen'])
    d=subprocess.run(['git','-C',wt,'diff'],capture_output=True,text=True).stdout
    open('/verif/selftest/mutants/%s.patch'%name,'w').write(d)
finally:
    subprocess.run(['git','-C','/repo','worktree','remove','--force',wt])
