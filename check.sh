#!/bin/bash
# usage: check.sh <property> [quick|thorough]
# Runs the contract check of one property against /repo's current working tree.
cd "$(dirname "$0")"
export GOFLAGS=-mod=mod GOPROXY=off GOSUMDB=off GOTOOLCHAIN=local
if [ ! -x bin/govc ] || [ -n "$(find govc -name '*.go' -newer bin/govc 2>/dev/null | head -1)" ]; then
  (cd govc && go build -o ../bin/govc .) || { echo "ERROR: cannot build govc"; exit 3; }
fi
TIER=${2:-${VERIF_TIER:-quick}}
exec bin/govc check --property "$1" --tier "$TIER"
