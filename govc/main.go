package main

import (
	"fmt"
	"golang.org/x/tools/go/packages"
	"golang.org/x/tools/go/ssa"
	"golang.org/x/tools/go/ssa/ssautil"
)

func main() {
	cfg := &packages.Config{Mode: packages.LoadAllSyntax, Dir: "/repo", BuildFlags: []string{"-tags=verif"}}
	pkgs, err := packages.Load(cfg, "./schema", "./atp")
	if err != nil {
		panic(err)
	}
	prog, spkgs := ssautil.AllPackages(pkgs, ssa.InstantiateGenerics)
	prog.Build()
	fmt.Println(len(spkgs))
}
