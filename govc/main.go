package main

import (
	"flag"
	"fmt"
	"os"
	"sort"
	"strings"
	"time"
)

func main() {
	if len(os.Args) < 2 {
		fmt.Fprintln(os.Stderr, "usage: govc <dump|check|...>")
		os.Exit(2)
	}
	switch os.Args[1] {
	case "dump":
		cmdDump(os.Args[2:])
	case "check":
		cmdCheck(os.Args[2:])
	case "reach":
		cmdReach(os.Args[2:])
	default:
		fmt.Fprintln(os.Stderr, "unknown command")
		os.Exit(2)
	}
}

func loadDefault(repo string) *Engine {
	e, err := loadEngine(repo, []string{"./schema", "./atp"}, repo)
	if err != nil {
		fmt.Fprintln(os.Stderr, "load:", err)
		os.Exit(3)
	}
	return e
}

func cmdDump(args []string) {
	fs := flag.NewFlagSet("dump", flag.ExitOnError)
	repo := fs.String("repo", "/repo", "repository")
	sweep := fs.Bool("sweep", false, "safety sweep only")
	frame := fs.Bool("frame", false, "force frame obligations")
	keep := fs.String("keep", "", "directory to keep SMT files")
	timeout := fs.Int("t", 10, "timeout seconds")
	verbose := fs.Bool("v", false, "print models and notes")
	mod := fs.String("mod", "", "module dir (default repo)")
	fs.Parse(args)
	var e *Engine
	if *mod != "" {
		var err error
		e, err = loadEngine(*repo, []string{"./..."}, *mod)
		if err != nil {
			fmt.Fprintln(os.Stderr, err)
			os.Exit(3)
		}
	} else {
		e = loadDefault(*repo)
	}
	dir := *keep
	if dir == "" {
		d, _ := os.MkdirTemp("", "govc")
		dir = d
		defer os.RemoveAll(d)
	} else {
		os.MkdirAll(dir, 0o755)
	}
	var units []*Unit
	for _, pat := range fs.Args() {
		var keys []string
		for k := range e.funcs {
			if k == pat || (strings.HasSuffix(pat, "*") && strings.HasPrefix(k, strings.TrimSuffix(pat, "*"))) {
				keys = append(keys, k)
			}
		}
		sort.Strings(keys)
		if len(keys) == 0 {
			fmt.Println("no function matches", pat)
		}
		for _, k := range keys {
			for _, fn := range e.funcs[k] {
				u := e.verify(fn, VerifyOpts{SweepOnly: *sweep, Frame: *frame})
				units = append(units, u)
			}
		}
	}
	t0 := time.Now()
	solveAll(units, dir, time.Duration(*timeout)*time.Second, solvers, 16)
	for _, u := range units {
		fmt.Printf("== %s  (%d obligations)\n", u.name, len(u.obls))
		if u.unsup != "" {
			fmt.Println("   UNSUPPORTED:", u.unsup)
		}
		for _, o := range u.obls {
			fmt.Printf("   %-9s %-7s %5.2fs %s  [%s] %s\n", o.Status, o.Solver, o.Secs, o.Name, o.Pos, o.Note)
			if *verbose && o.Status != "proved" {
				var ks []string
				for k := range o.Model {
					ks = append(ks, k)
				}
				sort.Strings(ks)
				for _, k := range ks {
					fmt.Printf("        %s = %s\n", k, o.Model[k])
				}
				if o.Status == "unknown" {
					fmt.Println("        ", trunc(o.Raw, 400))
				}
			}
		}
		if *verbose {
			var ns []string
			for n := range u.notes {
				ns = append(ns, n)
			}
			sort.Strings(ns)
			for _, n := range ns {
				fmt.Println("   note:", n)
			}
		}
	}
	fmt.Printf("solve time %.1fs\n", time.Since(t0).Seconds())
}

// cmdReach: own-package functions reachable from the named roots through static calls and all
// implementations of invoked interface methods (used to write the entry list of the frame property)
func cmdReach(args []string) {
	e := loadDefault("/repo")
	e.computeModsets()
	seen := map[string]bool{}
	var work []*ssaFunc
	for _, pat := range args {
		for _, fn := range e.matchFuncs(pat) {
			work = append(work, fn)
		}
	}
	for len(work) > 0 {
		f := work[len(work)-1]
		work = work[:len(work)-1]
		k := fnKey(f)
		if seen[k] {
			continue
		}
		seen[k] = true
		for _, c := range e.calleesOf(f) {
			if e.isOwnFunc(c) && len(c.Blocks) > 0 {
				work = append(work, c)
			}
		}
	}
	var ks []string
	for k := range seen {
		ks = append(ks, k)
	}
	sort.Strings(ks)
	for _, k := range ks {
		fmt.Println(k)
	}
}
