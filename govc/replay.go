package main

// concretize: derive an in-package Go test from the solver's model (see replay_gen.go once built)
func (u *Unit) concretize(o *Obl) (string, bool) { return "", false }

func runReplayTest(repo string, u *Unit, src string) (string, string) { return "skipped", "" }
