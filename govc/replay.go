package main

// Replay of a refuted obligation against the real code.
//
// The failed query is asked again with a list of probe terms (get-value) derived from the types of the function's
// receiver and parameters: which dynamic type an interface holds, whether a pointer is nil, the fields of the
// struct it points to in the entry heap, lengths and leading elements of slices. From the answers an in-package Go
// test is written that builds those inputs and calls the real function; it is injected with `go test -overlay` and
// the outcome is observed. Only obligations whose violation is a run-time panic can be judged this way (a
// postcondition cannot be evaluated in Go); everything else, and every input shape the generator cannot build
// (functions, channels, reflect.Value, non-empty maps, opaque external types), is reported as not replayed.

import (
	"context"
	"fmt"
	"go/types"
	"math"
	"os"
	"os/exec"
	"path/filepath"
	"sort"
	"strconv"
	"strings"
	"time"
)

type replayGen struct {
	u       *Unit
	q       string
	probes  []string
	probeIx map[string]int
	pkg     *types.Package
	imports map[string]string // path -> name
	approx  []string
	fail    string
	// extra constraints for the probing query: interface values hold nil or one of the dynamic types the generator
	// can build (narrows the search for a failing input; a model of the narrowed query is still a counterexample)
	constraints []string
}

type render func(vals []string) string

func (g *replayGen) probe(t string) int {
	if i, ok := g.probeIx[t]; ok {
		return i
	}
	g.probeIx[t] = len(g.probes)
	g.probes = append(g.probes, t)
	return len(g.probes) - 1
}

func (g *replayGen) declared(sym string) bool {
	return strings.Contains(g.q, "(declare-fun "+sym+" ") || strings.Contains(g.q, "(declare-const "+sym+" ")
}

func (g *replayGen) typeName(t types.Type) string {
	return types.TypeString(t, func(p *types.Package) string {
		if p == g.pkg {
			return ""
		}
		g.imports[p.Path()] = p.Name()
		return p.Name()
	})
}

func smtInt(v string) (int64, bool) {
	v = strings.TrimSpace(v)
	neg := false
	if strings.HasPrefix(v, "(-") {
		neg = true
		v = strings.TrimSpace(strings.TrimSuffix(strings.TrimPrefix(v, "(-"), ")"))
	}
	n, err := strconv.ParseInt(v, 10, 64)
	if err != nil {
		un, err2 := strconv.ParseUint(v, 10, 64)
		if err2 != nil {
			return 0, false
		}
		return int64(un), !neg
	}
	if neg {
		n = -n
	}
	return n, true
}

func smtUint(v string) (uint64, bool) {
	un, err := strconv.ParseUint(strings.TrimSpace(v), 10, 64)
	return un, err == nil
}

// (fp #b0 #b10000000000 #x0000000000000) and the special values
func smtFloat(v string, bits int) (string, bool) {
	v = strings.TrimSpace(v)
	switch {
	case strings.Contains(v, "NaN"):
		return "math.NaN()", true
	case strings.Contains(v, "+oo"):
		return "math.Inf(1)", true
	case strings.Contains(v, "-oo"):
		return "math.Inf(-1)", true
	case strings.Contains(v, "+zero"):
		return "0.0", true
	case strings.Contains(v, "-zero"):
		return "math.Copysign(0, -1)", true
	}
	if !strings.HasPrefix(v, "(fp ") {
		return "", false
	}
	parts := strings.Fields(strings.TrimSuffix(strings.TrimPrefix(v, "(fp "), ")"))
	if len(parts) != 3 {
		return "", false
	}
	bitstr := ""
	for _, p := range parts {
		switch {
		case strings.HasPrefix(p, "#b"):
			bitstr += p[2:]
		case strings.HasPrefix(p, "#x"):
			for _, c := range p[2:] {
				n, err := strconv.ParseUint(string(c), 16, 8)
				if err != nil {
					return "", false
				}
				bitstr += fmt.Sprintf("%04b", n)
			}
		default:
			return "", false
		}
	}
	if len(bitstr) != bits {
		return "", false
	}
	n, err := strconv.ParseUint(bitstr, 2, 64)
	if err != nil {
		return "", false
	}
	if bits == 64 {
		return fmt.Sprintf("math.Float64frombits(0x%x) /* %v */", n, math.Float64frombits(n)), true
	}
	return fmt.Sprintf("math.Float32frombits(0x%x)", n), true
}

func (g *replayGen) zero(t types.Type) string {
	switch tt := t.Underlying().(type) {
	case *types.Basic:
		switch {
		case tt.Info()&types.IsBoolean != 0:
			return g.conv(t, "false")
		case tt.Info()&types.IsString != 0:
			return g.conv(t, `""`)
		default:
			return g.conv(t, "0")
		}
	case *types.Struct:
		return g.typeName(t) + "{}"
	}
	return "nil"
}

func (g *replayGen) conv(t types.Type, lit string) string {
	if b, ok := t.(*types.Basic); ok && (b.Kind() == types.Bool || b.Kind() == types.String || b.Kind() == types.UntypedNil) {
		return lit
	}
	return g.typeName(t) + "(" + lit + ")"
}

// walk registers the probes for a value of Go type t denoted by term and returns its renderer
func (g *replayGen) walk(term string, t types.Type, depth int) render {
	u := g.u
	w := u.w
	if isReflectValue(t) {
		g.fail = "reflect.Value input"
		return func([]string) string { return "reflect.Value{}" }
	}
	switch tt := t.Underlying().(type) {
	case *types.Basic:
		switch {
		case tt.Info()&types.IsBoolean != 0:
			p := g.probe(term)
			return func(v []string) string { return g.conv(t, strings.TrimSpace(v[p])) }
		case tt.Info()&types.IsInteger != 0:
			p := g.probe(term)
			return func(v []string) string {
				if tt.Info()&types.IsUnsigned != 0 {
					if n, ok := smtUint(v[p]); ok {
						return g.conv(t, fmt.Sprintf("%d", n))
					}
				}
				n, ok := smtInt(v[p])
				if !ok {
					g.fail = "integer value " + v[p]
				}
				return g.conv(t, fmt.Sprintf("%d", n))
			}
		case tt.Info()&types.IsFloat != 0:
			p := g.probe(term)
			bits := 64
			if tt.Kind() == types.Float32 {
				bits = 32
			}
			return func(v []string) string {
				s, ok := smtFloat(v[p], bits)
				if !ok {
					g.fail = "float value " + v[p]
					return g.conv(t, "0")
				}
				g.imports["math"] = "math"
				return g.conv(t, s)
			}
		case tt.Info()&types.IsString != 0:
			pl := g.probe("(strlen " + term + ")")
			type cand struct {
				lit string
				p   int
			}
			var cands []cand
			var lits []string
			for lit := range w.strLits {
				lits = append(lits, lit)
			}
			sort.Strings(lits)
			for _, lit := range lits {
				c := w.strLits[lit]
				if g.declared(c) && len(cands) < 60 {
					cands = append(cands, cand{lit, g.probe("(= " + term + " " + c + ")")})
				}
			}
			return func(v []string) string {
				for _, c := range cands {
					if strings.TrimSpace(v[c.p]) == "true" {
						return g.conv(t, strconv.Quote(c.lit))
					}
				}
				n, ok := smtInt(v[pl])
				if !ok || n < 0 || n > 4096 {
					n = 1
				}
				g.approx = append(g.approx, "string contents are not part of the model: a string of the model's length is used")
				return g.conv(t, strconv.Quote(strings.Repeat("a", int(n))))
			}
		}
	case *types.Struct:
		if n, ok := t.(*types.Named); ok && n.Obj().Pkg() != nil && !isOwnPkg(n.Obj().Pkg().Path()) {
			g.approx = append(g.approx, "external struct "+g.typeName(t)+" left at its zero value")
			return func([]string) string { return g.typeName(t) + "{}" }
		}
		type fld struct {
			name string
			r    render
		}
		var fs []fld
		for i := 0; i < tt.NumFields(); i++ {
			f := tt.Field(i)
			if f.Name() == "_" {
				continue
			}
			if !g.supported(f.Type()) {
				g.approx = append(g.approx, "field "+f.Name()+" of "+g.typeName(t)+" left at its zero value")
				continue
			}
			fs = append(fs, fld{f.Name(), g.walk(w.fieldSel(t, i, term), f.Type(), depth)})
		}
		return func(v []string) string {
			var parts []string
			for _, f := range fs {
				parts = append(parts, f.name+": "+f.r(v))
			}
			return g.typeName(t) + "{" + strings.Join(parts, ", ") + "}"
		}
	case *types.Pointer:
		pn := g.probe("(= " + term + " nil)")
		el := tt.Elem()
		if depth <= 0 || !g.supported(el) {
			return func(v []string) string {
				if strings.TrimSpace(v[pn]) != "true" {
					g.approx = append(g.approx, "pointer to "+g.typeName(el)+" beyond the depth bound: a zero value is used")
					return "new(" + g.typeName(el) + ")"
				}
				return "nil"
			}
		}
		var key string
		if at, ok := el.Underlying().(*types.Array); ok {
			key = u.keyA(at.Elem())
			_ = key
			return func(v []string) string {
				if strings.TrimSpace(v[pn]) == "true" {
					return "nil"
				}
				return "new(" + g.typeName(el) + ")"
			}
		}
		key = u.keyT(el)
		h0 := quote("H0:" + key)
		var child render
		if g.declared(h0) {
			child = g.walk(fmt.Sprintf("(select %s %s)", h0, term), el, depth-1)
		} else {
			child = func([]string) string { return g.zero(el) }
		}
		return func(v []string) string {
			if strings.TrimSpace(v[pn]) == "true" {
				return "nil"
			}
			c := child(v)
			if _, isStruct := el.Underlying().(*types.Struct); isStruct && strings.HasSuffix(c, "}") {
				return "&" + c
			}
			return "govcPtr[" + g.typeName(el) + "](" + c + ")"
		}
	case *types.Interface:
		pnil := g.probe(fmt.Sprintf("(= (ityp %s) T_nil)", term))
		type cand struct {
			p int
			t types.Type
			r render
		}
		var cands []cand
		var keys []string
		for k := range w.tags {
			keys = append(keys, k)
		}
		sort.Strings(keys)
		for _, k := range keys {
			ct := w.tagTypes[k]
			if ct == nil || !g.declared(w.tags[k]) || !g.supported(ct) || len(cands) >= 40 {
				continue
			}
			if _, isIface := ct.Underlying().(*types.Interface); isIface {
				continue
			}
			if !types.AssignableTo(ct, t) {
				continue
			}
			_, ub := w.boxFn(w.sortOf(ct))
			var child render
			if g.declared(ub) && depth > 0 {
				child = g.walk(fmt.Sprintf("(%s (ival %s))", ub, term), ct, depth-1)
			} else {
				// the value inside is not constrained by the query: any value of that type will do
				cct := ct
				child = func([]string) string {
					if pt, ok := cct.Underlying().(*types.Pointer); ok {
						return "new(" + g.typeName(pt.Elem()) + ")"
					}
					return g.zero(cct)
				}
			}
			cands = append(cands, cand{g.probe(fmt.Sprintf("(= (ityp %s) %s)", term, w.tags[k])), ct, child})
		}
		alts := []string{fmt.Sprintf("(= (ityp %s) T_nil)", term)}
		for _, c := range cands {
			alts = append(alts, g.probes[c.p])
		}
		g.constraints = append(g.constraints, or(alts...))
		return func(v []string) string {
			if strings.TrimSpace(v[pnil]) == "true" {
				return "nil"
			}
			for _, c := range cands {
				if strings.TrimSpace(v[c.p]) == "true" {
					return g.typeName(t) + "(" + c.r(v) + ")"
				}
			}
			g.fail = "an interface value whose dynamic type the generator cannot build"
			return "nil"
		}
	case *types.Slice:
		pl := g.probe("(slen " + term + ")")
		key := u.keyA(tt.Elem())
		h0 := quote("H0:" + key)
		var els []render
		if g.declared(h0) && depth > 0 && g.supported(tt.Elem()) {
			for i := 0; i < 3; i++ {
				els = append(els, g.walk(fmt.Sprintf("(select (select %s (sdata %s)) (+ (soff %s) %d))", h0, term, term, i), tt.Elem(), depth-1))
			}
		}
		return func(v []string) string {
			n, ok := smtInt(v[pl])
			if !ok || n < 0 || n > 100000 {
				g.fail = "slice length " + v[pl]
				return "nil"
			}
			if n == 0 {
				return g.typeName(t) + "{}"
			}
			var parts []string
			for i := 0; i < int(n) && i < len(els); i++ {
				parts = append(parts, els[i](v))
			}
			s := g.typeName(t) + "{" + strings.Join(parts, ", ") + "}"
			if int(n) > len(parts) {
				s = fmt.Sprintf("append(%s, make(%s, %d)...)", s, g.typeName(t), int(n)-len(parts))
			}
			return s
		}
	case *types.Map:
		pn := g.probe("(= " + term + " nil)")
		_, _, kl := u.regM(tt)
		h0 := quote("H0:" + kl)
		pl := -1
		if g.declared(h0) {
			pl = g.probe(fmt.Sprintf("(select %s %s)", h0, term))
		}
		return func(v []string) string {
			if strings.TrimSpace(v[pn]) == "true" {
				return g.typeName(t) + "(nil)"
			}
			if pl >= 0 {
				if n, ok := smtInt(v[pl]); ok && n > 0 {
					g.fail = "a non-empty map input (the keys of a map are not enumerated from the model)"
				}
			}
			return g.typeName(t) + "{}"
		}
	}
	g.fail = "input of type " + g.typeName(t)
	return func([]string) string { return "nil" }
}

func (g *replayGen) supported(t types.Type) bool {
	if isReflectValue(t) {
		return false
	}
	switch tt := t.Underlying().(type) {
	case *types.Basic:
		return tt.Kind() != types.UnsafePointer && tt.Info()&types.IsComplex == 0
	case *types.Struct, *types.Pointer, *types.Interface, *types.Slice, *types.Map:
		return true
	}
	return false
}

// concretize: derive an in-package Go test from the solver's model. Returns the test source.
func (u *Unit) concretize(o *Obl) (string, bool) {
	fn := u.fun
	u.replayWhy = ""
	if fn == nil || fn.Pkg == nil && fn.Origin() == nil || !panicClass[o.Class] || o.Class == "pre" {
		u.replayWhy = "only obligations whose violation is a run-time panic can be judged by running the code (class " + o.Class + ")"
		return "", false
	}
	pkg := fn.Pkg
	if pkg == nil {
		pkg = fn.Origin().Pkg
	}
	if pkg == nil || fn.Parent() != nil {
		return "", false
	}
	g := &replayGen{u: u, probeIx: map[string]int{}, pkg: pkg.Pkg, imports: map[string]string{}}
	g.q = u.buildQuery(o, true)
	var rs []render
	var names []string
	for _, p := range fn.Params {
		if !g.supported(p.Type()) {
			// functions, channels ...: a nil argument
			rs = append(rs, func([]string) string { return "nil" })
			g.approx = append(g.approx, "parameter "+p.Name()+" of unsupported type: nil is passed")
		} else if !g.declared(quote("p:" + p.Name())) {
			// the parameter does not occur in the failed query: any value will do
			pt := p.Type()
			rs = append(rs, func([]string) string { return g.zero(pt) })
		} else {
			rs = append(rs, g.walk(quote("p:"+p.Name()), p.Type(), 3))
		}
		names = append(names, p.Name())
	}
	if g.fail != "" || len(g.probes) == 0 {
		u.replayWhy = "input shape: " + g.fail
		return "", false
	}
	// ask the model
	i := strings.LastIndex(g.q, "(check-sat)")
	if i < 0 {
		return "", false
	}
	var sb strings.Builder
	sb.WriteString(g.q[:i])
	for _, c := range g.constraints {
		sb.WriteString("(assert " + c + ")\n")
	}
	sb.WriteString("(check-sat)\n")
	for _, p := range g.probes {
		sb.WriteString("(get-value (" + p + "))\n")
	}
	dir, _ := os.MkdirTemp("", "govc-replay")
	defer os.RemoveAll(dir)
	file := filepath.Join(dir, "probe.smt2")
	os.WriteFile(file, []byte(sb.String()), 0o644)
	res := runSolver(context.Background(), solverSpec{name: "z3-new"}, file, 20*time.Second)
	if res.status != "sat" {
		u.replayWhy = "the probing query did not return a model: " + res.status + " " + trunc(res.out, 200)
		return "", false
	}
	lines := strings.SplitN(res.out, "\n", 2)
	if len(lines) < 2 {
		return "", false
	}
	vals := splitGetValues(lines[1], len(g.probes))
	if len(vals) != len(g.probes) {
		u.replayWhy = fmt.Sprintf("could not parse the probe answers (%d of %d)", len(vals), len(g.probes))
		return "", false
	}
	var args []string
	for _, r := range rs {
		args = append(args, r(vals))
	}
	if g.fail != "" {
		u.replayWhy = "input shape: " + g.fail
		return "", false
	}
	// the call
	call := ""
	name := fn.Name()
	if j := strings.Index(name, "["); j > 0 && fn.Signature.Recv() != nil {
		name = name[:j]
	}
	if fn.Signature.Recv() != nil {
		call = fmt.Sprintf("recv.%s(%s)", name, strings.Join(names[1:], ", "))
		names[0] = "recv"
	} else {
		call = fmt.Sprintf("%s(%s)", name, strings.Join(names, ", "))
		if len(fn.TypeArgs()) > 0 {
			var tas []string
			for _, ta := range fn.TypeArgs() {
				tas = append(tas, g.typeName(ta))
			}
			base := name
			if j := strings.Index(base, "["); j > 0 {
				base = base[:j]
			}
			call = fmt.Sprintf("%s[%s](%s)", base, strings.Join(tas, ", "), strings.Join(names, ", "))
		}
	}
	var decl strings.Builder
	for i, a := range args {
		fmt.Fprintf(&decl, "\tvar %s %s = %s\n\t_ = %s\n", names[i], g.typeName(fn.Params[i].Type()), a, names[i])
	}
	var imps []string
	for path := range g.imports {
		imps = append(imps, path)
	}
	sort.Strings(imps)
	var ib strings.Builder
	for _, p := range imps {
		fmt.Fprintf(&ib, "\t%q\n", p)
	}
	notes := ""
	seen := map[string]bool{}
	for _, a := range g.approx {
		if !seen[a] {
			seen[a] = true
			notes += "// approximation: " + a + "\n"
		}
	}
	src := fmt.Sprintf(`package %s

// generated by govc from the solver's counterexample of %s
%s
import (
	"fmt"
	"testing"
%s)

func govcPtr[T any](v T) *T { return &v }

func TestGovcReplay(t *testing.T) {
	defer func() {
		if r := recover(); r != nil {
			fmt.Printf("GOVC-REPLAY panicked: %%.300v\n", r)
			return
		}
		fmt.Println("GOVC-REPLAY returned normally")
	}()
%s	%s
}
`, pkg.Pkg.Name(), o.Name, notes, ib.String(), decl.String(), call)
	return src, true
}

// splitGetValues: z3 answers each (get-value (t)) with ((t v)); returns the v's in order
func splitGetValues(out string, n int) []string {
	var vals []string
	depth := 0
	start := -1
	inbar := false
	for i := 0; i < len(out) && len(vals) < n; i++ {
		c := out[i]
		if c == '|' {
			inbar = !inbar
		}
		if inbar {
			continue
		}
		switch c {
		case '(':
			if depth == 0 {
				start = i
			}
			depth++
		case ')':
			depth--
			if depth == 0 && start >= 0 {
				item := out[start+2 : i-1] // strip "((" and "))"
				// item = "<term> <value>": the value is the last top-level s-expression
				vals = append(vals, lastSexp(item))
				start = -1
			}
		}
	}
	return vals
}

func lastSexp(s string) string {
	s = strings.TrimSpace(s)
	if strings.HasSuffix(s, ")") {
		d := 0
		inbar := false
		for i := len(s) - 1; i >= 0; i-- {
			c := s[i]
			if c == '|' {
				inbar = !inbar
			}
			if inbar {
				continue
			}
			if c == ')' {
				d++
			}
			if c == '(' {
				d--
				if d == 0 {
					return s[i:]
				}
			}
		}
		return s
	}
	if strings.HasSuffix(s, "|") {
		j := strings.LastIndex(s[:len(s)-1], "|")
		if j >= 0 {
			return s[j:]
		}
	}
	j := strings.LastIndexAny(s, " \n\t")
	return s[j+1:]
}

// runReplayTest injects the generated test into the package of the unit's function and runs it against repo
func runReplayTest(repo string, u *Unit, src string) (string, string) {
	fn := u.fun
	pkg := fn.Pkg
	if pkg == nil && fn.Origin() != nil {
		pkg = fn.Origin().Pkg
	}
	if pkg == nil {
		return "skipped", "no package"
	}
	// directory of the package: from a source file of the package
	pos := fn.Pos()
	if !pos.IsValid() && fn.Origin() != nil {
		pos = fn.Origin().Pos()
	}
	file := u.eng.prog.Fset.Position(pos).Filename
	if file == "" {
		return "skipped", "no source position"
	}
	pdir := filepath.Dir(file)
	// module root: nearest go.mod upwards
	mod := pdir
	for {
		if _, err := os.Stat(filepath.Join(mod, "go.mod")); err == nil {
			break
		}
		parent := filepath.Dir(mod)
		if parent == mod {
			return "skipped", "no go.mod"
		}
		mod = parent
	}
	rel, _ := filepath.Rel(mod, pdir)
	dir, _ := os.MkdirTemp("", "govc-replay")
	defer os.RemoveAll(dir)
	tf := filepath.Join(dir, "replay_test.go")
	os.WriteFile(tf, []byte(src), 0o644)
	ov := filepath.Join(dir, "ov.json")
	os.WriteFile(ov, []byte(fmt.Sprintf(`{"Replace":{%q:%q}}`, filepath.Join(pdir, "zz_govc_replay_test.go"), tf)), 0o644)
	ctx, cancel := context.WithTimeout(context.Background(), 120*time.Second)
	defer cancel()
	cmd := exec.CommandContext(ctx, "bash", "-c", fmt.Sprintf("ulimit -v 4000000; go test -tags verif -overlay %q -vet=off -count=1 -timeout 60s -v -run '^TestGovcReplay$' %q", ov, "./"+rel))
	cmd.Dir = mod
	cmd.Env = append(os.Environ(), "GOFLAGS=-mod=mod", "GOPROXY=off", "GOSUMDB=off", "GOTOOLCHAIN=local")
	out, _ := cmd.CombinedOutput()
	s := string(out)
	switch {
	case strings.Contains(s, "GOVC-REPLAY panicked"):
		return "reproduced", s
	case strings.Contains(s, "GOVC-REPLAY returned normally"):
		return "not reproduced (the call returned normally on the generated input)", s
	default:
		return "not run (the generated test did not compile or did not finish)", s
	}
}
