package main

import (
	"fmt"
	"go/token"
	"go/types"
	"os"
	"sort"
	"strings"

	"golang.org/x/tools/go/ssa"
)

type fnRef struct {
	fn    *ssa.Function
	binds []*Val
}

const (
	maxInlineDepth  = 4
	maxInlineInstrs = 120
)

func fnKey(f *ssa.Function) string {
	if f == nil {
		return ""
	}
	if o := f.Origin(); o != nil {
		f = o
	}
	// closures: parent$n
	if f.Parent() != nil {
		return fnKey(f.Parent()) + "$" + strings.TrimPrefix(f.Name(), f.Parent().Name()+"$")
	}
	pkg := ""
	if f.Pkg != nil {
		pkg = f.Pkg.Pkg.Name()
	} else if f.Object() != nil && f.Object().Pkg() != nil {
		pkg = f.Object().Pkg().Name()
	}
	if recv := f.Signature.Recv(); recv != nil {
		t := recv.Type()
		if p, ok := t.(*types.Pointer); ok {
			t = p.Elem()
		}
		if n, ok := t.(*types.Named); ok {
			if n.Obj().Pkg() != nil {
				pkg = n.Obj().Pkg().Name()
			}
			return pkg + "." + n.Obj().Name() + "." + f.Name()
		}
		return pkg + ".?." + f.Name()
	}
	return pkg + "." + f.Name()
}

// full external name used by the stdlib table, e.g. "reflect.ValueOf", "(reflect.Value).Kind", "(*sync.Mutex).Lock"
func extName(f *ssa.Function) string {
	if o := f.Origin(); o != nil {
		f = o
	}
	return f.RelString(nil)
}

func (fr *Frame) call(instr ssa.Instruction, c *ssa.CallCommon, st *State) *Val {
	u := fr.u
	var resTy types.Type
	if v, ok := instr.(ssa.Value); ok {
		resTy = v.Type()
	} else {
		resTy = c.Signature().Results()
	}
	pos := instr.Pos()
	// builtins
	if b, ok := c.Value.(*ssa.Builtin); ok {
		return fr.builtin(b, c, st, pos, resTy)
	}
	fr.emitOrderCheck(instr, c, st)
	fr.curInstr = instr
	var args []*Val
	for _, a := range c.Args {
		args = append(args, fr.val(a))
	}
	if c.IsInvoke() {
		recv := fr.val(c.Value)
		base := st.now
		res := fr.invoke(c, recv, args, st, pos, resTy)
		all := len(u.eng.frameSet) > 0
		impls := u.eng.implementations(c.Value.Type(), c.Method)
		for _, impl := range impls {
			if !u.eng.inFrameSet(impl.fn) {
				all = false
				if os.Getenv("GOVC_DEBUG") != "" && len(u.eng.frameSet) > 0 {
					fmt.Fprintln(os.Stderr, "impl not in frame set:", fnKey(impl.fn), "for", c.Method.Name())
				}
			}
		}
		fr.assumeFreshErr(st, base, res, resTy, args, all && len(impls) > 0)
		return res
	}
	if callee := c.StaticCallee(); callee != nil {
		var binds []*Val
		if mc, ok := c.Value.(*ssa.MakeClosure); ok {
			for _, b := range mc.Bindings {
				binds = append(binds, fr.val(b))
			}
		}
		base := st.now
		res := fr.staticCall(callee, binds, args, st, pos, resTy)
		fr.assumeFreshErr(st, base, res, resTy, args, u.eng.inFrameSet(callee))
		return res
	}
	// dynamic call of a function value
	fv := fr.val(c.Value)
	if fv.K == vFunc && fv.Fn != nil && fv.Fn.fn != nil {
		return fr.staticCall(fv.Fn.fn, fv.Fn.binds, args, st, pos, resTy)
	}
	if fv.K == vTerm {
		u.oblige(fr, st, "nil", "funcvalue", fmt.Sprintf("(distinct %s nil)", fv.T), pos, "call of nil function value")
		return fr.dynCall(fv, args, st, pos, resTy)
	}
	u.unsupportedf("dynamic call")
	return nil
}

// results of a call whose effect is unknown
func (fr *Frame) havocResults(st *State, resTy types.Type, label string) *Val {
	u := fr.u
	mk := func(t types.Type, i int) *Val {
		n := u.w.newConst(fmt.Sprintf("r:%s.%d", label, i), u.w.sortOf(t))
		for _, f := range u.wfFacts(st, n, t, 0) {
			u.fact(f)
		}
		return term(n, t)
	}
	if tup, ok := resTy.(*types.Tuple); ok {
		if tup.Len() == 0 {
			return &Val{K: vNone}
		}
		if tup.Len() == 1 {
			return mk(tup.At(0).Type(), 0)
		}
		v := &Val{K: vTuple}
		for i := 0; i < tup.Len(); i++ {
			v.Elems = append(v.Elems, mk(tup.At(i).Type(), i))
		}
		return v
	}
	if resTy == nil {
		return &Val{K: vNone}
	}
	return mk(resTy, 0)
}

func (fr *Frame) bumpNow(st *State) {
	u := fr.u
	nn := u.w.newConst("now", "Int")
	u.fact(fmt.Sprintf("(>= %s %s)", nn, st.now))
	st.now = nn
}

func (fr *Frame) staticCall(callee *ssa.Function, binds []*Val, args []*Val, st *State, pos token.Pos, resTy types.Type) *Val {
	u := fr.u
	eng := u.eng
	key := fnKey(callee)
	if rc := callee.Signature.Recv(); rc != nil && len(args) > 0 && eng.isOwnFunc(callee) {
		if _, isPtr := rc.Type().Underlying().(*types.Pointer); isPtr && args[0].K == vTerm && !fr.knownNonNil(args[0].T) {
			u.oblige(fr, st, "nil", "recv."+callee.Name(), fmt.Sprintf("(distinct %s nil)", args[0].T), pos, "method call on a nil pointer receiver")
		}
	}
	// 1. stdlib model
	if m, ok := stdModels[extName(callee)]; ok {
		u.usedStd[extName(callee)] = true
		return m(fr, st, callee, args, pos, resTy)
	}
	// 2. contract (in frame mode a callee whose contract lists assigned locations is inlined instead when
	// possible, so that conditional writes such as lazily filled caches are judged under their real guard)
	if ct := eng.contractFor(callee); ct != nil && !eng.forceInline[key] && !ct.onlyLoopInvs() {
		return fr.applyContract(ct, callee, nil, args, st, pos, resTy, key)
	}
	// 3. inline. Whether a callee without a contract is small enough is decided by its size; the decision taken when
	// the claims were recorded is kept afterwards (claims/inline.json), so that a function which shrinks or grows a
	// little is not suddenly treated differently in all its callers.
	small := instrCount(callee) <= maxInlineInstrs
	if eng.sizeDecisions != nil {
		eng.sizeMu.Lock()
		if _, seen := eng.sizeDecisions[key]; !seen {
			eng.sizeDecisions[key] = small
		}
		eng.sizeMu.Unlock()
	}
	if was, ok := eng.baseInline[key]; ok {
		small = was && instrCount(callee) <= 5*maxInlineInstrs
	}
	if len(callee.Blocks) > 0 && eng.isOwnFunc(callee) && fr.depth < maxInlineDepth && !fr.onStack(callee) && small && !eng.noInline[key] {
		return fr.inline(callee, binds, args, st, pos)
	}
	// 4. havoc
	if u.checkFrame && eng.frameSet[key] {
		// frame checked by the callee's own unit in this run: allocation only
		u.note("uncontracted call (results unconstrained; frame checked in the callee's own unit): " + key)
		fr.bumpNow(st)
		return fr.havocResults(st, resTy, callee.Name())
	}
	return fr.havocCall(callee, args, st, pos, resTy)
}

func instrCount(f *ssa.Function) int {
	n := 0
	for _, b := range f.Blocks {
		n += len(b.Instrs)
	}
	return n
}

func (fr *Frame) onStack(f *ssa.Function) bool {
	if fr.fn == f {
		return true
	}
	for _, s := range fr.stack {
		if s == f {
			return true
		}
	}
	return false
}

func (fr *Frame) inline(callee *ssa.Function, binds []*Val, args []*Val, st *State, pos token.Pos) *Val {
	u := fr.u
	u.inlined[fnKey(callee)] = true
	ctx := shortKey(fnKey(callee))
	if fr.ctx != "" {
		ctx = fr.ctx + ">" + ctx
	}
	sub := &Frame{u: u, fn: callee, vals: map[ssa.Value]*Val{}, depth: fr.depth + 1, ctx: ctx, binds: binds, parent: fr,
		stack: append(append([]*ssa.Function{}, fr.stack...), fr.fn)}
	for i, p := range callee.Params {
		a := args[i]
		if a.K == vAddr {
			a = fr.materialize(a, st)
		}
		sub.vals[p] = a
	}
	exit, results := sub.run(st)
	// copy the exit state into st
	*st = *exit
	switch len(results) {
	case 0:
		return &Val{K: vNone}
	case 1:
		return results[0]
	}
	return &Val{K: vTuple, Elems: results}
}

func shortKey(k string) string {
	if i := strings.Index(k, "."); i >= 0 {
		return k[i+1:]
	}
	return k
}

// havocCall: unknown effect limited to the callee's computed modset
func (fr *Frame) havocCall(callee *ssa.Function, args []*Val, st *State, pos token.Pos, resTy types.Type) *Val {
	u := fr.u
	name := extName(callee)
	ms := u.eng.modsetOf(u, callee)
	if len(callee.Blocks) == 0 || !u.eng.isOwnFunc(callee) {
		u.note("external call without model (results unconstrained, no heap effect assumed): " + name)
	} else {
		u.note("uncontracted call (results unconstrained, modset havocked): " + fnKey(callee))
	}
	fr.applyModset(ms, st, "callee "+name, pos)
	fr.bumpNow(st)
	return fr.havocResults(st, resTy, callee.Name())
}

func (fr *Frame) applyModset(ms *modset, st *State, what string, pos token.Pos) {
	u := fr.u
	var ks []string
	for k := range ms.keys {
		ks = append(ks, k)
	}
	sort.Strings(ks)
	for _, k := range ks {
		u.ensureKey(k)
		if _, ok := u.heapSorts[k]; !ok {
			continue
		}
		open := ms.keys[k]
		if open && u.checkFrame {
			u.oblige(fr, st, "frame", "call", "false", pos, what+" may write pre-existing memory ("+k+") and has no frame contract")
		}
		u.havocHeap(st, k, open, nil)
	}
	for g := range ms.ghosts {
		if srt := u.ghostSort[g]; srt != "" {
			st.ghost[g] = u.w.newConst("g:"+g, srt)
		}
	}
}

func (fr *Frame) dynCall(fv *Val, args []*Val, st *State, pos token.Pos, resTy types.Type) *Val {
	u := fr.u
	// ghost invocation counter per function value
	u.w.declFun("fn_id", []string{"Ref"}, "Int")
	gk := "inv"
	if _, ok := u.ghostSort[gk]; !ok {
		u.ghostSort[gk] = "(Array Ref Int)"
	}
	cur, ok := st.ghost[gk]
	if !ok {
		cur = u.ghost0(gk)
	}
	n := u.w.newConst("inv", "(Array Ref Int)")
	u.fact(eq(n, fmt.Sprintf("(store %s %s (+ (select %s %s) 1))", cur, fv.T, cur, fv.T)))
	st.ghost[gk] = n
	// record last arguments
	for i, a := range args {
		if a.K != vTerm {
			continue
		}
		srt := u.w.sortOf(a.Ty)
		fnm := quote(fmt.Sprintf("lastarg%d:%s", i, sortShort(srt)))
		gk2 := fmt.Sprintf("lastarg%d:%s", i, sortShort(srt))
		u.ghostSort[gk2] = fmt.Sprintf("(Array Ref %s)", srt)
		cur2, ok := st.ghost[gk2]
		if !ok {
			cur2 = u.ghost0(gk2)
		}
		_ = fnm
		n2 := u.w.newConst(gk2, u.ghostSort[gk2])
		u.fact(eq(n2, fmt.Sprintf("(store %s %s %s)", cur2, fv.T, a.T)))
		st.ghost[gk2] = n2
	}
	fr.unwindCheck(st, pos)
	u.note("call of an opaque function value: result unconstrained; handler code is outside the verified slice")
	// user code may do anything to memory it can reach; we assume handlers do not touch schema memory
	u.assume["opaque function values (step/signal handlers, callbacks) do not write memory reachable from the schema"] = true
	fr.bumpNow(st)
	res := fr.havocResults(st, resTy, "dyn")
	// remember results of the dynamic call for contracts: lastres
	if res.K == vTerm || res.K == vTuple {
		elems := []*Val{res}
		if res.K == vTuple {
			elems = res.Elems
		}
		for i, e := range elems {
			srt := u.w.sortOf(e.Ty)
			gk3 := fmt.Sprintf("lastres%d:%s", i, sortShort(srt))
			u.ghostSort[gk3] = fmt.Sprintf("(Array Ref %s)", srt)
			cur3, ok := st.ghost[gk3]
			if !ok {
				cur3 = u.ghost0(gk3)
			}
			n3 := u.w.newConst(gk3, u.ghostSort[gk3])
			u.fact(eq(n3, fmt.Sprintf("(store %s %s %s)", cur3, fv.T, e.T)))
			st.ghost[gk3] = n3
		}
	}
	return res
}

func (u *Unit) ghost0(k string) string {
	n := quote("G0:" + k)
	u.w.declFun(n, nil, u.ghostSort[k])
	return n
}

func (u *Unit) ghostOf(st *State, k string) string {
	if v, ok := st.ghost[k]; ok {
		return v
	}
	return u.ghost0(k)
}

// ---------------------------------------------------------------------------------------------
// invoke: interface method call
// ---------------------------------------------------------------------------------------------

func (fr *Frame) invoke(c *ssa.CallCommon, recv *Val, args []*Val, st *State, pos token.Pos, resTy types.Type) *Val {
	u := fr.u
	eng := u.eng
	u.oblige(fr, st, "nil", "invoke."+c.Method.Name(), fmt.Sprintf("(distinct (ityp %s) T_nil)", recv.T), pos, "method call on nil interface")
	// stdlib interface methods (reflect.Type, error, ...)
	iname := ifaceMethodName(c)
	if m, ok := stdIfaceModels[iname]; ok {
		u.usedStd[iname] = true
		return m(fr, st, recv, args, pos, resTy)
	}
	// interface contract
	var res *Val
	if ct := eng.ifaceContract(c.Value.Type(), c.Method.Name()); ct != nil {
		res = fr.applyContract(ct, nil, recv, args, st, pos, resTy, ct.Key)
	} else {
		ms := eng.invokeModset(u, c)
		if u.checkFrame && len(eng.frameSet) > 0 {
			all := true
			impls := eng.implementations(c.Value.Type(), c.Method)
			for _, impl := range impls {
				if !eng.inFrameSet(impl.fn) {
					all = false
				}
			}
			if all && len(impls) > 0 {
				ms = &modset{keys: map[string]bool{}, ghosts: ms.ghosts}
			}
		}
		if len(ms.keys) > 0 || len(ms.ghosts) > 0 {
			u.note("uncontracted interface call (modset of all implementations havocked): " + iname)
		} else {
			u.note("uncontracted interface call (results unconstrained): " + iname)
		}
		fr.applyModset(ms, st, "interface method "+iname, pos)
		fr.bumpNow(st)
		res = fr.havocResults(st, resTy, c.Method.Name())
	}
	// facts from pure implementations with constant results (TypeID etc.)
	fr.pureImplFacts(c, recv, res, st)
	return res
}

func ifaceMethodName(c *ssa.CallCommon) string {
	t := c.Value.Type()
	s := types.TypeString(t, func(p *types.Package) string { return p.Name() })
	return "(" + s + ")." + c.Method.Name()
}

// pureImplFacts: for a method whose implementations in the analysed packages all return a constant,
// typ(recv)=tag(C) ==> result = that constant. Justified by reading the implementation's SSA here.
func (fr *Frame) pureImplFacts(c *ssa.CallCommon, recv *Val, res *Val, st *State) {
	u := fr.u
	if res == nil || res.K != vTerm {
		return
	}
	for _, impl := range u.eng.implementations(c.Value.Type(), c.Method) {
		cv := constResult(impl.fn)
		if cv == nil {
			continue
		}
		cvv := u.constVal(cv)
		u.fact(implies(eq(fmt.Sprintf("(ityp %s)", recv.T), u.w.tag(impl.recv)), eq(res.T, cvv.T)))
		u.usedPure[fnKey(impl.fn)] = true
	}
}

// constResult: the function body is a single return of a constant
func constResult(f *ssa.Function) *ssa.Const {
	if f == nil || len(f.Blocks) != 1 {
		return nil
	}
	// wrappers ($bound / pointer-receiver wrappers) call the value method: follow one level
	b := f.Blocks[0]
	last, ok := b.Instrs[len(b.Instrs)-1].(*ssa.Return)
	if !ok || len(last.Results) != 1 {
		return nil
	}
	if c, ok := last.Results[0].(*ssa.Const); ok {
		for _, in := range b.Instrs[:len(b.Instrs)-1] {
			switch in.(type) {
			case *ssa.DebugRef, *ssa.Alloc, *ssa.Store, *ssa.UnOp:
			default:
				return nil
			}
		}
		return c
	}
	if call, ok := last.Results[0].(*ssa.Call); ok {
		if cal := call.Common().StaticCallee(); cal != nil && cal != f {
			return constResult(cal)
		}
	}
	return nil
}

// ---------------------------------------------------------------------------------------------
// builtins
// ---------------------------------------------------------------------------------------------

func (fr *Frame) builtin(b *ssa.Builtin, c *ssa.CallCommon, st *State, pos token.Pos, resTy types.Type) *Val {
	u := fr.u
	arg := func(i int) *Val { return fr.val(c.Args[i]) }
	switch b.Name() {
	case "len", "cap":
		a := arg(0)
		switch at := c.Args[0].Type().Underlying().(type) {
		case *types.Slice:
			if b.Name() == "len" {
				return term(fmt.Sprintf("(slen %s)", a.T), types.Typ[types.Int])
			}
			return term(fmt.Sprintf("(scap %s)", a.T), types.Typ[types.Int])
		case *types.Basic:
			return term(fmt.Sprintf("(strlen %s)", a.T), types.Typ[types.Int])
		case *types.Map:
			return term(ite(fmt.Sprintf("(= %s nil)", a.T), "0", u.mapLen(st, at, a.T)), types.Typ[types.Int])
		case *types.Array:
			return term(fmt.Sprintf("%d", at.Len()), types.Typ[types.Int])
		case *types.Pointer:
			if arr, ok := at.Elem().Underlying().(*types.Array); ok {
				return term(fmt.Sprintf("%d", arr.Len()), types.Typ[types.Int])
			}
		case *types.Chan:
			n := u.w.newConst("chanlen", "Int")
			u.fact(fmt.Sprintf("(>= %s 0)", n))
			return term(n, types.Typ[types.Int])
		}
	case "append":
		s, t := arg(0), arg(1)
		stt, ok := c.Args[0].Type().Underlying().(*types.Slice)
		if !ok {
			break
		}
		if isString(c.Args[1].Type()) {
			break
		}
		return fr.appendOp(s, t, stt.Elem(), st, pos)
	case "delete":
		m := arg(0)
		mt := c.Args[0].Type().Underlying().(*types.Map)
		k := fr.asTerm(arg(1), st)
		// delete on nil map is a no-op
		if u.checkFrame {
			u.oblige(fr, st, "frame", "delete", or(fmt.Sprintf("(= %s nil)", m.T), fmt.Sprintf("(>= (birth %s) %s)", m.T, u.entryNow)), pos, "delete from a map that existed before the call")
		}
		for _, a := range u.noDeleteAddrs {
			if len(a.Sels) > 0 {
				last := a.Sels[len(a.Sels)-1]
				if stt, ok := last.cont.Underlying().(*types.Struct); ok && last.field >= 0 && last.field < stt.NumFields() {
					if !types.Identical(stt.Field(last.field).Type().Underlying(), mt) {
						continue
					}
				}
			}
			u.oblige(fr, st, "insertonly", "delete", not(eq(u.loadAddr(st, a), m.T)), pos, "an entry of a protected map whose entries are never deleted is deleted")
			break
		}
		alive := st.clone()
		u.mapDelete(alive, mt, m.T, k)
		nilc := fmt.Sprintf("(= %s nil)", m.T)
		kd, _, kl := u.regM(mt)
		for _, key := range []string{kd, kl} {
			st.heap[key] = u.nameHeap(key, ite(nilc, u.heapOf(st, key), u.heapOf(alive, key)))
		}
		return &Val{K: vNone}
	case "copy":
		d, s := arg(0), arg(1)
		stt, ok := c.Args[0].Type().Underlying().(*types.Slice)
		if !ok || isString(c.Args[1].Type()) {
			break
		}
		key := u.regA(stt.Elem())
		fr.frameCheckRef(st, fmt.Sprintf("(sdata %s)", d.T), "copy", pos)
		u.havocHeap(st, key, true, nil)
		n := u.w.newConst("copied", "Int")
		u.fact(eq(n, ite(fmt.Sprintf("(< (slen %s) (slen %s))", d.T, s.T), fmt.Sprintf("(slen %s)", d.T), fmt.Sprintf("(slen %s)", s.T))))
		u.note("copy(): destination contents not modelled")
		return term(n, types.Typ[types.Int])
	case "recover":
		if fr.recoverV != nil {
			return fr.recoverV
		}
		return term("nilIface", resTy)
	case "close":
		fr.closeChan(arg(0), st, pos)
		return &Val{K: vNone}
	case "print", "println":
		return &Val{K: vNone}
	case "min", "max":
		if len(c.Args) == 2 && isInteger(c.Args[0].Type()) {
			a, bb := arg(0).T, arg(1).T
			op := "<"
			if b.Name() == "max" {
				op = ">"
			}
			return term(fmt.Sprintf("(ite (%s %s %s) %s %s)", op, a, bb, a, bb), resTy)
		}
	}
	u.unsupportedf("builtin %s on %v", b.Name(), c.Args[0].Type())
	return nil
}

// frame checks -------------------------------------------------------------------------------

func (fr *Frame) frameCheck(st *State, a *Val, pos token.Pos) {
	if !fr.u.checkFrame {
		return
	}
	fr.frameCheckRef(st, a.Ref, a.Heap, pos)
}

func (fr *Frame) frameCheckRef(st *State, ref string, what string, pos token.Pos) {
	u := fr.u
	if !u.checkFrame {
		return
	}
	if fr.knownNonNil(ref) && strings.HasPrefix(ref, "|alloc:") {
		return
	}
	goal := or(fmt.Sprintf("(= %s nil)", ref), fmt.Sprintf("(>= (birth %s) %s)", ref, u.entryNow))
	if u.assignable != nil {
		goal = or(goal, u.assignable(ref, what))
	}
	u.oblige(fr, st, "frame", shortHeap(what), goal, pos, "write to memory that existed before the call (not allocated by this operation)")
}

func shortHeap(k string) string {
	k = strings.TrimPrefix(k, "T:")
	if len(k) > 40 {
		k = k[:40]
	}
	return k
}

// emitOrderCheck: in a function declared `deterministic`, a call with effects inside the body of a loop over a map
// makes the produced output depend on the iteration order.
func (fr *Frame) emitOrderCheck(instr ssa.Instruction, c *ssa.CallCommon, st *State) {
	u := fr.u
	if fr.depth != 0 || fr.contract == nil || !fr.contract.Deterministic {
		return
	}
	b := instr.Block()
	for h, body := range fr.loopBody {
		if !body[b] {
			continue
		}
		isMap := false
		for _, in := range h.Instrs {
			if nx, ok := in.(*ssa.Next); ok {
				if rg, ok := nx.Iter.(*ssa.Range); ok {
					if _, ok := rg.X.Type().Underlying().(*types.Map); ok {
						isMap = true
					}
				}
			}
		}
		if !isMap {
			continue
		}
		name := "dynamic call"
		if callee := c.StaticCallee(); callee != nil {
			name = extName(callee)
			if strings.HasPrefix(name, "strings.") || strings.HasPrefix(name, "strconv.") {
				continue
			}
		} else if c.IsInvoke() {
			name = ifaceMethodName(c)
		}
		u.oblige(fr, st, "order", "emit", "false", instr.Pos(), "call of "+name+" inside a loop over a map: what it emits depends on the iteration order")
	}
}

// unwindCheck: an opaque function value (a step or signal handler, an initializer: plugin code whose panics the
// callers recover by design) is called. If it panics, the stack unwinds through this function: every declared
// monitor lock held at this point must have a pending deferred Unlock, or the lock stays held for ever and the next
// caller blocks.
func (fr *Frame) unwindCheck(st *State, pos token.Pos) {
	u := fr.u
	var keys []string
	for k, v := range st.ghost {
		if strings.HasPrefix(k, "held:") && v != "false" {
			keys = append(keys, k)
		}
	}
	sort.Strings(keys)
	for _, hk := range keys {
		var conds []string
		for f := fr; f != nil; f = f.parent {
			for i, d := range f.defers {
				c := d.Common()
				callee := c.StaticCallee()
				if callee == nil || len(c.Args) == 0 {
					continue
				}
				if n := callee.String(); n != "(*sync.Mutex).Unlock" && n != "(*sync.RWMutex).Unlock" {
					continue
				}
				a, ok := f.vals[c.Args[0]]
				if !ok {
					continue
				}
				if m, fname := u.monitorFor(a); m != nil && fname == m.Lock && heldKey(m, "") == hk {
					cond := "true"
					if i < len(f.deferConds) {
						cond = f.deferConds[i]
					}
					conds = append(conds, cond)
				}
			}
		}
		goal := not(u.ghostOf(st, hk))
		if len(conds) > 0 {
			goal = or(append([]string{goal}, conds...)...)
		}
		u.oblige(fr, st, "unwind", strings.TrimPrefix(hk, "held:"), goal, pos, "an opaque function is called while "+strings.TrimPrefix(hk, "held:")+" is held and no deferred Unlock is pending: if it panics (callers recover handler panics by design) the lock is never released")
	}
}
