package main

import (
	"fmt"
	"go/constant"
	"go/token"
	"go/types"
	"strings"

	"golang.org/x/tools/go/ssa"
)

// ---------------------------------------------------------------------------------------------
// Assumed contracts of library functions. Every entry has a doc line that is listed in the
// evidence when the model is used. Preconditions that make the real function panic are emitted as
// obligations of class "libpre".
// ---------------------------------------------------------------------------------------------

type stdModel func(fr *Frame, st *State, callee *ssa.Function, args []*Val, pos token.Pos, resTy types.Type) *Val
type stdIfaceModel func(fr *Frame, st *State, recv *Val, args []*Val, pos token.Pos, resTy types.Type) *Val

var stdModels = map[string]stdModel{}
var stdIfaceModels = map[string]stdIfaceModel{}
var stdModsets = map[string]func(u *Unit) *modset{}
var stdIfaceModsets = map[string]func(u *Unit) *modset{}
var stdDocs = map[string]string{}

func emptyModset(u *Unit) *modset { return &modset{keys: map[string]bool{}, ghosts: map[string]bool{}} }

func reg(name, doc string, m stdModel) {
	stdModels[name] = m
	stdDocs[name] = doc
	if _, ok := stdModsets[name]; !ok {
		stdModsets[name] = emptyModset
	}
}

func regI(name, doc string, m stdIfaceModel) {
	stdIfaceModels[name] = m
	stdDocs[name] = doc
	stdIfaceModsets[name] = emptyModset
}

var tBool = types.Typ[types.Bool]
var tInt = types.Typ[types.Int]
var tString = types.Typ[types.String]

func (u *Unit) fn(name string, args []string, ret string) string {
	u.w.declFun(name, args, ret)
	return name
}

func app(f string, args ...string) string { return "(" + f + " " + strings.Join(args, " ") + ")" }

// reflect.Type values are interface values holding a type tag
func (u *Unit) rtypeOfTag(tag string) string {
	bx, ub := u.w.boxFn("TypeTag")
	t := fmt.Sprintf("(mkIface %s (%s %s))", u.w.opaqueTag("*reflect.rtype", 22), bx, tag)
	ck := "rt:" + tag
	if !u.frameDone[ck] {
		u.frameDone[ck] = true
		u.fact(eq(app(ub, app(bx, tag)), tag))
	}
	return t
}

func (u *Unit) tagOfRtype(t string) string {
	_, ub := u.w.boxFn("TypeTag")
	return fmt.Sprintf("(%s (ival %s))", ub, t)
}

func kindIn(k string, ks ...int) string {
	var alts []string
	for _, x := range ks {
		alts = append(alts, fmt.Sprintf("(= %s %d)", k, x))
	}
	return or(alts...)
}

var intKinds = []int{2, 3, 4, 5, 6}
var uintKinds = []int{7, 8, 9, 10, 11, 12}
var floatKinds = []int{13, 14}

func numericKinds() []int {
	return append(append(append([]int{}, intKinds...), uintKinds...), floatKinds...)
}

// convertible(from,to) as decided by reflect for the target kinds the SDK uses
func (u *Unit) convertibleDef(from, to string) string {
	c := app(u.fn("convertible", []string{"TypeTag", "TypeTag"}, "Bool"), from, to)
	ck := "conv:" + from + ">" + to
	if !u.frameDone[ck] {
		u.frameDone[ck] = true
		kf, kt := app("kind", from), app("kind", to)
		isNum := kindIn(kt, numericKinds()...)
		u.fact(implies(isNum, eq(c, kindIn(kf, numericKinds()...))))
		u.fact(implies(fmt.Sprintf("(= %s 1)", kt), eq(c, fmt.Sprintf("(= %s 1)", kf))))
		// to string: from string, any integer kind, []byte, []rune
		bytesOrRunes := and(fmt.Sprintf("(= %s 23)", kf), kindIn(app("kind", app("elemT", from)), 8, 5))
		u.fact(implies(fmt.Sprintf("(= %s 24)", kt), eq(c, or(fmt.Sprintf("(= %s 24)", kf), kindIn(kf, append(append([]int{}, intKinds...), uintKinds...)...), bytesOrRunes))))
		u.fact(implies(eq(from, to), c))
	}
	return c
}

func rvKind(u *Unit, v string) string {
	u.fn("rv_valid", []string{"RV"}, "Bool")
	u.fn("rv_type", []string{"RV"}, "TypeTag")
	return fmt.Sprintf("(ite (rv_valid %s) (kind (rv_type %s)) 0)", v, v)
}

func (u *Unit) libpre(fr *Frame, st *State, name string, goal string, pos token.Pos, note string) {
	u.oblige(fr, st, "libpre", name, goal, pos, note)
}

func init() {
	// ---------------- reflect ----------------
	reg("reflect.TypeOf", "reflect.TypeOf(x): nil for a nil interface, otherwise the identity of the dynamic type", func(fr *Frame, st *State, callee *ssa.Function, args []*Val, pos token.Pos, resTy types.Type) *Val {
		u := fr.u
		x := args[0].T
		t := ite(fmt.Sprintf("(= (ityp %s) T_nil)", x), "nilIface", u.rtypeOfTag(fmt.Sprintf("(ityp %s)", x)))
		return term(t, resTy)
	})
	reg("reflect.ValueOf", "reflect.ValueOf(x): invalid Value iff x is nil; Type() is the dynamic type; Interface() returns x", func(fr *Frame, st *State, callee *ssa.Function, args []*Val, pos token.Pos, resTy types.Type) *Val {
		u := fr.u
		x := args[0].T
		u.fn("rv_of", []string{"Iface"}, "RV")
		u.fn("rv_valid", []string{"RV"}, "Bool")
		u.fn("rv_type", []string{"RV"}, "TypeTag")
		u.fn("rv_iface", []string{"RV"}, "Iface")
		u.fn("rv_canset", []string{"RV"}, "Bool")
		u.w.declFun("rv_zero", nil, "RV")
		if !u.frameDone["rvzero"] {
			u.frameDone["rvzero"] = true
			u.fact("(not (rv_valid rv_zero))")
		}
		if u.quantOK && !u.frameDone["rvof-axiom"] {
			u.frameDone["rvof-axiom"] = true
			u.fact("(forall ((qx Iface)) (! (and (= (rv_valid (rv_of qx)) (distinct (ityp qx) T_nil)) (= (rv_type (rv_of qx)) (ityp qx)) (= (rv_iface (rv_of qx)) qx)) :pattern ((rv_of qx))))")
		}
		v := app("rv_of", x)
		ck := "rvof:" + x
		if !u.frameDone[ck] {
			u.frameDone[ck] = true
			u.fact(eq(app("rv_valid", v), fmt.Sprintf("(distinct (ityp %s) T_nil)", x)))
			u.fact(eq(app("rv_type", v), fmt.Sprintf("(ityp %s)", x)))
			u.fact(eq(app("rv_iface", v), x))
			u.fact(not(app("rv_canset", v)))
		}
		return &Val{K: vTerm, T: v, Ty: resTy}
	})
	reg("(reflect.Value).IsValid", "Value.IsValid", func(fr *Frame, st *State, callee *ssa.Function, args []*Val, pos token.Pos, resTy types.Type) *Val {
		fr.u.fn("rv_valid", []string{"RV"}, "Bool")
		return term(app("rv_valid", args[0].T), tBool)
	})
	reg("(reflect.Value).Kind", "Value.Kind: Invalid for the zero Value, else the kind of its type", func(fr *Frame, st *State, callee *ssa.Function, args []*Val, pos token.Pos, resTy types.Type) *Val {
		return term(rvKind(fr.u, args[0].T), resTy)
	})
	reg("(reflect.Value).Type", "Value.Type: panics on the zero Value", func(fr *Frame, st *State, callee *ssa.Function, args []*Val, pos token.Pos, resTy types.Type) *Val {
		u := fr.u
		u.fn("rv_valid", []string{"RV"}, "Bool")
		u.fn("rv_type", []string{"RV"}, "TypeTag")
		u.libpre(fr, st, "reflect.Value.Type", app("rv_valid", args[0].T), pos, "reflect: call of Type on zero Value")
		return term(u.rtypeOfTag(app("rv_type", args[0].T)), resTy)
	})
	reg("(reflect.Value).CanConvert", "Value.CanConvert(t): panics on the zero Value; true iff the value's type converts to t (numeric<->numeric, integer/string/[]byte/[]rune->string, bool->bool, identical types)", func(fr *Frame, st *State, callee *ssa.Function, args []*Val, pos token.Pos, resTy types.Type) *Val {
		u := fr.u
		v, t := args[0].T, args[1].T
		u.fn("rv_valid", []string{"RV"}, "Bool")
		u.fn("rv_type", []string{"RV"}, "TypeTag")
		u.libpre(fr, st, "reflect.Value.CanConvert", app("rv_valid", v), pos, "reflect: CanConvert on zero Value panics")
		return term(u.convertibleDef(app("rv_type", v), u.tagOfRtype(t)), tBool)
	})
	reg("(reflect.Value).Convert", "Value.Convert(t): panics unless valid and convertible; result has type t and the converted value", func(fr *Frame, st *State, callee *ssa.Function, args []*Val, pos token.Pos, resTy types.Type) *Val {
		u := fr.u
		v, t := args[0].T, args[1].T
		u.fn("rv_valid", []string{"RV"}, "Bool")
		u.fn("rv_type", []string{"RV"}, "TypeTag")
		u.fn("rv_iface", []string{"RV"}, "Iface")
		tt := u.tagOfRtype(t)
		u.libpre(fr, st, "reflect.Value.Convert", and(app("rv_valid", v), fmt.Sprintf("(distinct (ityp %s) T_nil)", t), u.convertibleDef(app("rv_type", v), tt)), pos, "reflect: Convert of a value that is not convertible panics")
		u.fn("rv_convert", []string{"RV", "TypeTag"}, "RV")
		r := app("rv_convert", v, tt)
		ck := "rvconv:" + r
		if u.frameDone[ck] {
			return &Val{K: vTerm, T: r, Ty: resTy}
		}
		u.frameDone[ck] = true
		u.fact(app("rv_valid", r))
		u.fact(eq(app("rv_type", r), tt))
		u.fact(eq(fmt.Sprintf("(ityp (rv_iface %s))", r), tt))
		// value semantics for the scalar targets
		src := fmt.Sprintf("(ival (rv_iface %s))", v)
		dst := fmt.Sprintf("(ival (rv_iface %s))", r)
		kf := fmt.Sprintf("(kind (rv_type %s))", v)
		kt := fmt.Sprintf("(kind %s)", tt)
		_, ubI := u.w.boxFn("Int")
		_, ubS := u.w.boxFn("Str")
		_, ubB := u.w.boxFn("Bool")
		_, ubF := u.w.boxFn(F64)
		// int64 target from any integer kind: two's complement wrap
		i64 := types.Typ[types.Int64]
		u.fact(implies(and(fmt.Sprintf("(= %s 6)", kt), kindIn(kf, append(append([]int{}, intKinds...), uintKinds...)...)),
			eq(app(ubI, dst), wrapInt(app(ubI, src), i64))))
		u.fact(implies(and(fmt.Sprintf("(= %s 24)", kt), fmt.Sprintf("(= %s 24)", kf)), eq(app(ubS, dst), app(ubS, src))))
		u.fact(implies(and(fmt.Sprintf("(= %s 1)", kt), fmt.Sprintf("(= %s 1)", kf)), eq(app(ubB, dst), app(ubB, src))))
		u.fact(implies(and(fmt.Sprintf("(= %s 14)", kt), fmt.Sprintf("(= %s 14)", kf)), eq(app(ubF, dst), app(ubF, src))))
		// identical types: same value
		u.fact(implies(eq(app("rv_type", v), tt), eq(app("rv_iface", r), app("rv_iface", v))))
		return &Val{K: vTerm, T: r, Ty: resTy}
	})
	scalarGet := func(name string, kinds []int, srt string, ty types.Type) {
		reg("(reflect.Value)."+name, "Value."+name+": panics unless the kind matches; returns the held value", func(fr *Frame, st *State, callee *ssa.Function, args []*Val, pos token.Pos, resTy types.Type) *Val {
			u := fr.u
			v := args[0].T
			u.fn("rv_iface", []string{"RV"}, "Iface")
			if name != "String" {
				u.libpre(fr, st, "reflect.Value."+name, kindIn(rvKind(u, v), kinds...), pos, "reflect: "+name+" on a value of the wrong kind panics")
			}
			_, ub := u.w.boxFn(srt)
			r := fr.named(callee.Params[0], fmt.Sprintf("(%s (ival (rv_iface %s)))", ub, v), ty)
			for _, f := range u.wfFacts(st, r.T, ty, 0) {
				u.fact(f)
			}
			return r
		})
	}
	scalarGet("Int", intKinds, "Int", types.Typ[types.Int64])
	scalarGet("Float", floatKinds, F64, types.Typ[types.Float64])
	scalarGet("Bool", []int{1}, "Bool", tBool)
	scalarGet("String", []int{24}, "Str", tString)
	reg("(reflect.Value).Interface", "Value.Interface: panics on the zero Value; returns the held value", func(fr *Frame, st *State, callee *ssa.Function, args []*Val, pos token.Pos, resTy types.Type) *Val {
		u := fr.u
		v := args[0].T
		u.fn("rv_valid", []string{"RV"}, "Bool")
		u.fn("rv_iface", []string{"RV"}, "Iface")
		u.libpre(fr, st, "reflect.Value.Interface", app("rv_valid", v), pos, "reflect: Interface on zero Value panics")
		r := fr.named(callee.Params[0], app("rv_iface", v), resTy)
		for _, f := range u.wfFacts(st, r.T, resTy, 0) {
			u.fact(f)
		}
		return r
	})
	reg("(reflect.Value).Len", "Value.Len: panics unless kind is Slice, Map, Array, String or Chan (pointer to array also allowed)", func(fr *Frame, st *State, callee *ssa.Function, args []*Val, pos token.Pos, resTy types.Type) *Val {
		u := fr.u
		v := args[0].T
		u.fn("rv_len", []string{"RV"}, "Int")
		k := rvKind(u, v)
		ptrToArray := and(fmt.Sprintf("(= %s 22)", k), fmt.Sprintf("(= (kind (elemT (rv_type %s))) 17)", v))
		u.libpre(fr, st, "reflect.Value.Len", or(kindIn(k, 23, 21, 17, 24, 18), ptrToArray), pos, "reflect: Len of a value that has no length panics")
		r := app("rv_len", v)
		u.fact(and(fmt.Sprintf("(>= %s 0)", r), fmt.Sprintf("(< %s 281474976710656)", r)))
		return term(r, tInt)
	})
	reg("(reflect.Value).Index", "Value.Index(i): panics unless kind is Slice/Array/String and 0<=i<Len; element is valid", func(fr *Frame, st *State, callee *ssa.Function, args []*Val, pos token.Pos, resTy types.Type) *Val {
		u := fr.u
		v, i := args[0].T, args[1].T
		u.fn("rv_len", []string{"RV"}, "Int")
		u.fn("rv_index", []string{"RV", "Int"}, "RV")
		u.fn("rv_canset", []string{"RV"}, "Bool")
		k := rvKind(u, v)
		u.libpre(fr, st, "reflect.Value.Index", and(kindIn(k, 23, 17, 24), fmt.Sprintf("(<= 0 %s)", i), fmt.Sprintf("(< %s (rv_len %s))", i, v)), pos, "reflect: Index out of range or on a non-indexable value panics")
		r := app("rv_index", v, i)
		u.fact(app("rv_valid", r))
		u.fact(implies(kindIn(k, 23, 17), eq(app("rv_type", r), fmt.Sprintf("(elemT (rv_type %s))", v))))
		u.fact(implies(fmt.Sprintf("(= %s 23)", k), app("rv_canset", r)))
		return &Val{K: vTerm, T: r, Ty: resTy}
	})
	reg("(reflect.Value).IsNil", "Value.IsNil: panics unless kind is Chan, Func, Interface, Map, Pointer, Slice or UnsafePointer", func(fr *Frame, st *State, callee *ssa.Function, args []*Val, pos token.Pos, resTy types.Type) *Val {
		u := fr.u
		v := args[0].T
		u.fn("rv_isnil", []string{"RV"}, "Bool")
		u.libpre(fr, st, "reflect.Value.IsNil", kindIn(rvKind(u, v), 18, 19, 20, 21, 22, 23, 26), pos, "reflect: IsNil on a value of a non-nillable kind panics")
		return term(app("rv_isnil", v), tBool)
	})
	reg("reflect.Indirect", "reflect.Indirect(v): v.Elem() for pointers (zero Value for a nil pointer), v otherwise", func(fr *Frame, st *State, callee *ssa.Function, args []*Val, pos token.Pos, resTy types.Type) *Val {
		u := fr.u
		v := args[0].T
		u.fn("rv_elem", []string{"RV"}, "RV")
		u.fn("rv_isnil", []string{"RV"}, "Bool")
		isPtr := fmt.Sprintf("(= %s 22)", rvKind(u, v))
		e := app("rv_elem", v)
		u.fn("rv_indirect", []string{"RV"}, "RV")
		r := app("rv_indirect", v)
		ck := "rvind:" + r
		if !u.frameDone[ck] {
			u.frameDone[ck] = true
			u.fact(eq(r, ite(isPtr, e, v)))
			u.fact(implies(isPtr, and(eq(app("rv_valid", e), not(app("rv_isnil", v))), eq(app("rv_type", e), fmt.Sprintf("(elemT (rv_type %s))", v)))))
		}
		return &Val{K: vTerm, T: r, Ty: resTy}
	})

	// ---------------- fmt / strings / strconv / errors ----------------
	reg("fmt.Sprintf", "fmt.Sprintf: total; result is an uninterpreted function of the format and the arguments", func(fr *Frame, st *State, callee *ssa.Function, args []*Val, pos token.Pos, resTy types.Type) *Val {
		return term(fr.u.sprintfTerm(fr, st, args[0], args[1]), tString)
	})
	reg("fmt.Errorf", "fmt.Errorf: total; returns a non-nil error that is not a *ConstraintError; it wraps a *ConstraintError only if the format contains %w", func(fr *Frame, st *State, callee *ssa.Function, args []*Val, pos token.Pos, resTy types.Type) *Val {
		u := fr.u
		e := u.w.newConst("errorf", "Iface")
		u.fact(fmt.Sprintf("(distinct (ityp %s) T_nil)", e))
		u.fact(fmt.Sprintf("(distinct (ityp %s) %s)", e, u.ceTag()))
		tw, te := u.w.opaqueTag("*fmt.wrapError", 22), u.w.opaqueTag("*errors.errorString", 22)
		u.fact(fmt.Sprintf("(or (= (ityp %s) %s) (= (ityp %s) %s))", e, tw, e, te))
		_, ub := u.w.boxFn("Ref")
		u.fact(fmt.Sprintf("(>= (birth (%s (ival %s))) %s)", ub, e, st.now))
		fr.bumpNow(st)
		if !fr.formatHas(args[0], "%w") {
			u.fact(not(app(u.fn("as_ce_ok", []string{"Iface"}, "Bool"), e)))
			u.fact(fmt.Sprintf("(= (ityp %s) %s)", e, te))
		}
		return term(e, resTy)
	})
	reg("errors.New", "errors.New: non-nil error that is not a *ConstraintError", func(fr *Frame, st *State, callee *ssa.Function, args []*Val, pos token.Pos, resTy types.Type) *Val {
		u := fr.u
		e := u.w.newConst("errnew", "Iface")
		u.fact(fmt.Sprintf("(= (ityp %s) %s)", e, u.w.opaqueTag("*errors.errorString", 22)))
		u.fact(not(app(u.fn("as_ce_ok", []string{"Iface"}, "Bool"), e)))
		return term(e, resTy)
	})
	reg("strings.ToLower", "strings.ToLower: total, uninterpreted", func(fr *Frame, st *State, callee *ssa.Function, args []*Val, pos token.Pos, resTy types.Type) *Val {
		u := fr.u
		return term(app(u.fn("str_tolower", []string{"Str"}, "Str"), args[0].T), tString)
	})
	reg("strings.Join", "strings.Join: total, result unconstrained", func(fr *Frame, st *State, callee *ssa.Function, args []*Val, pos token.Pos, resTy types.Type) *Val {
		u := fr.u
		r := u.w.newConst("joined", "Str")
		u.fact(fmt.Sprintf("(>= (strlen %s) 0)", r))
		return term(r, tString)
	})
	reg("strconv.ParseInt", "strconv.ParseInt(s,10,64): err==nil implies the result is parseInt10(s), within int64", func(fr *Frame, st *State, callee *ssa.Function, args []*Val, pos token.Pos, resTy types.Type) *Val {
		u := fr.u
		s := args[0].T
		ok := app(u.fn("parseint_ok", []string{"Str"}, "Bool"), s)
		v := app(u.fn("parseint_val", []string{"Str"}, "Int"), s)
		u.fact(and(fmt.Sprintf("(<= (- 9223372036854775808) %s)", v), fmt.Sprintf("(<= %s 9223372036854775807)", v)))
		e := u.w.newConst("parseerr", "Iface")
		u.fact(eq(fmt.Sprintf("(= (ityp %s) T_nil)", e), ok))
		u.fact(implies(not(ok), and(fmt.Sprintf("(= (ityp %s) %s)", e, u.w.opaqueTag("*strconv.NumError", 22)), not(app(u.fn("as_ce_ok", []string{"Iface"}, "Bool"), e)))))
		u.fact(implies(ok, eq(e, "nilIface")))
		r := u.w.newConst("parsed", "Int")
		u.fact(eq(r, ite(ok, v, "0")))
		u.note("strconv.ParseInt on error returns 0 here (the real function returns a clamped value; callers in scope discard it)")
		return &Val{K: vTuple, Elems: []*Val{term(r, types.Typ[types.Int64]), term(e, types.Universe.Lookup("error").Type())}}
	})
	reg("strconv.ParseFloat", "strconv.ParseFloat(s,64): err==nil implies the result is parseFloat(s)", func(fr *Frame, st *State, callee *ssa.Function, args []*Val, pos token.Pos, resTy types.Type) *Val {
		u := fr.u
		s := args[0].T
		ok := app(u.fn("parsefloat_ok", []string{"Str"}, "Bool"), s)
		v := app(u.fn("parsefloat_val", []string{"Str"}, F64), s)
		e := u.w.newConst("parseerr", "Iface")
		u.fact(eq(fmt.Sprintf("(= (ityp %s) T_nil)", e), ok))
		u.fact(implies(not(ok), and(fmt.Sprintf("(= (ityp %s) %s)", e, u.w.opaqueTag("*strconv.NumError", 22)), not(app(u.fn("as_ce_ok", []string{"Iface"}, "Bool"), e)))))
		u.fact(implies(ok, eq(e, "nilIface")))
		r := u.w.newConst("parsedf", F64)
		u.fact(implies(ok, eq(r, v)))
		return &Val{K: vTuple, Elems: []*Val{term(r, types.Typ[types.Float64]), term(e, types.Universe.Lookup("error").Type())}}
	})
	stdModsets["errors.As"] = func(u *Unit) *modset {
		return &modset{keys: map[string]bool{}, ghosts: map[string]bool{}}
	}
	reg("errors.As", "errors.As(err,&c) for c *ConstraintError: true iff the unwrap chain of err contains a *ConstraintError; c is set to the first one. A chain starting with a *ConstraintError finds that one.", func(fr *Frame, st *State, callee *ssa.Function, args []*Val, pos token.Pos, resTy types.Type) *Val {
		u := fr.u
		err := args[0].T
		okf := u.fn("as_ce_ok", []string{"Iface"}, "Bool")
		valf := u.fn("as_ce_val", []string{"Iface"}, "Ref")
		ok := app(okf, err)
		v := app(valf, err)
		_, ub := u.w.boxFn("Ref")
		ce := u.ceTag()
		u.fact(implies(fmt.Sprintf("(= (ityp %s) T_nil)", err), not(ok)))
		u.fact(implies(fmt.Sprintf("(= (ityp %s) %s)", err, ce), and(ok, eq(v, fmt.Sprintf("(%s (ival %s))", ub, err)))))
		u.fact(fmt.Sprintf("(< (birth %s) %s)", v, st.now))
		u.fact(implies(ok, fmt.Sprintf("(distinct %s nil)", v)))
		// target: args[1] is any(&c) : an interface holding **ConstraintError
		tgt := args[1].T
		ptr := fmt.Sprintf("(%s (ival %s))", ub, tgt)
		cet := u.eng.ceType()
		if cet == nil {
			u.unsupportedf("errors.As: ConstraintError type not found")
		}
		a := u.addrOfPtr(term(ptr, types.NewPointer(types.NewPointer(cet))))
		cur := u.loadAddr(st, a)
		u.storeAddr(st, a, ite(ok, v, cur))
		return term(ok, tBool)
	})
}

func (u *Unit) ceTag() string {
	t := u.eng.ceType()
	if t == nil {
		return u.w.opaqueTag("*schema.ConstraintError", 22)
	}
	return u.w.tag(types.NewPointer(t))
}

func (e *Engine) ceType() types.Type {
	p := e.tpkgs["schema"]
	if p == nil {
		return nil
	}
	o := p.Scope().Lookup("ConstraintError")
	if o == nil {
		return nil
	}
	return o.Type()
}

// formatHas: the format argument is a constant containing sub
func (fr *Frame) formatHas(f *Val, sub string) bool {
	for lit, c := range fr.u.w.strLits {
		if c == f.T {
			return strings.Contains(lit, sub)
		}
	}
	return true // unknown format: assume it may
}

// sprintfTerm: uninterpreted function of format and the (statically known number of) arguments
func (u *Unit) sprintfTerm(fr *Frame, st *State, format *Val, va *Val) string {
	n := -1
	// the variadic slice is (mkSlice ref 0 k k) built from a fixed-size array; recover k syntactically
	if va.T == "(mkSlice nil 0 0 0)" {
		n = 0
	} else if k, ok := u.sliceConstLen[va.T]; ok {
		n = k
	}
	if n == 0 && !fr.formatHas(format, "%") {
		// a constant format without verbs and without operands is printed as it is
		return format.T
	}
	if n < 0 || n > 6 {
		r := u.w.newConst("sprintf", "Str")
		u.fact(fmt.Sprintf("(>= (strlen %s) 0)", r))
		return r
	}
	fnm := fmt.Sprintf("sprintf%d", n)
	as := []string{"Str"}
	ts := []string{format.T}
	for i := 0; i < n; i++ {
		as = append(as, "Iface")
		ts = append(ts, u.sliceElem(st, anyType, va.T, fmt.Sprintf("%d", i)))
	}
	u.w.declFun(fnm, as, "Str")
	r := app(fnm, ts...)
	nm := u.w.newConst("sprintf", "Str")
	u.fact(eq(nm, r))
	u.fact(fmt.Sprintf("(>= (strlen %s) 0)", nm))
	return nm
}

func implementsType(t types.Type, iface types.Type) bool {
	it, ok := iface.(*types.Interface)
	if !ok || t == nil {
		return false
	}
	if _, isI := t.Underlying().(*types.Interface); isI {
		return false
	}
	return types.Implements(t, it)
}

var _ = constant.MakeBool
