package main

import (
	"fmt"
	"go/token"
	"go/types"
	"strings"

	"golang.org/x/tools/go/ssa"
)

// assignable(a,b): a value of type a can be assigned to a location of type b (as far as the slice needs it:
// identical types, or b is an interface type - precise for the empty interface, an over-approximation of
// acceptance for non-empty interfaces, noted)
func (u *Unit) assignableDef(a, b string) string {
	return or(eq(a, b), fmt.Sprintf("(= (kind %s) 20)", b))
}

func rvDecls(u *Unit) {
	u.fn("rv_valid", []string{"RV"}, "Bool")
	u.fn("rv_type", []string{"RV"}, "TypeTag")
	u.fn("rv_iface", []string{"RV"}, "Iface")
	u.fn("rv_canset", []string{"RV"}, "Bool")
	u.fn("rv_len", []string{"RV"}, "Int")
	u.fn("rv_isnil", []string{"RV"}, "Bool")
	u.fn("rv_elem", []string{"RV"}, "RV")
	u.fn("rv_index", []string{"RV", "Int"}, "RV")
	u.fn("rv_mapindex", []string{"RV", "RV"}, "RV")
	u.fn("rv_iskey", []string{"RV", "RV"}, "Bool")
	u.fn("rv_field", []string{"RV", "Str"}, "RV")
	u.fn("rv_method", []string{"RV", "Str"}, "RV")
}

func freshRV(u *Unit, prefix string) string { return u.w.newConst(prefix, "RV") }

func rvRet(t string, ty types.Type) *Val { return &Val{K: vTerm, T: t, Ty: ty} }

// a fresh slice of n elements of Go type elem in newly allocated memory
func (u *Unit) freshSlice(st *State, elem types.Type, n string, prefix string) (slice string, arr string) {
	key := u.regA(elem)
	r := u.allocRef(st, prefix)
	arr = u.w.newConst(prefix+"Arr", fmt.Sprintf("(Array Int %s)", u.w.sortOf(elem)))
	h := u.heapOf(st, key)
	st.heap[key] = u.nameHeap(key, fmt.Sprintf("(store %s %s %s)", h, r, arr))
	s := u.w.newConst(prefix, "Slice")
	u.fact(eq(s, fmt.Sprintf("(mkSlice %s 0 %s %s)", r, n, n)))
	return s, arr
}

func init() {
	reg("(reflect.Value).MapKeys", "Value.MapKeys: panics unless kind is Map; returns Len() valid keys, each present in the map", func(fr *Frame, st *State, callee *ssa.Function, args []*Val, pos token.Pos, resTy types.Type) *Val {
		u := fr.u
		v := args[0].T
		rvDecls(u)
		u.libpre(fr, st, "reflect.Value.MapKeys", fmt.Sprintf("(= %s 21)", rvKind(u, v)), pos, "reflect: MapKeys of a non-map panics")
		ln := app("rv_len", v)
		u.fact(and(fmt.Sprintf("(>= %s 0)", ln), fmt.Sprintf("(< %s 281474976710656)", ln)))
		rvT := resTy.Underlying().(*types.Slice).Elem()
		s, arr := u.freshSlice(st, rvT, ln, "mapkeys")
		u.fn("rv_key", []string{"RV", "Int"}, "RV")
		u.fact(fmt.Sprintf("(forall ((qi Int)) (! (= (select %s qi) (rv_key %s qi)) :pattern ((select %s qi))))", arr, v, arr))
		u.fn("rv_keyidx", []string{"RV", "Iface"}, "Int")
		u.fn("rv_mapval", []string{"RV", "Iface"}, "RV")
		// MapKeys enumerates every key for which MapIndex yields a valid value
		u.fact(fmt.Sprintf("(forall ((qx Iface)) (! (=> (rv_valid (rv_mapval %s qx)) (and (<= 0 (rv_keyidx %s qx)) (< (rv_keyidx %s qx) (rv_len %s)) (= (rv_iface (rv_key %s (rv_keyidx %s qx))) qx))) :pattern ((rv_mapval %s qx))))", v, v, v, v, v, v, v))
		u.fact(fmt.Sprintf("(forall ((qi Int)) (! (and (rv_valid (rv_key %s qi)) (rv_iskey %s (rv_key %s qi)) (= (rv_type (rv_key %s qi)) (keyT (rv_type %s)))) :pattern ((rv_key %s qi))))", v, v, v, v, v, v))
		entryValFacts(u, v)
		return term(s, resTy)
	})
	reg("(reflect.Value).MapIndex", "Value.MapIndex(k): panics unless kind is Map and k is valid and assignable to the key type; result valid iff the key is present", func(fr *Frame, st *State, callee *ssa.Function, args []*Val, pos token.Pos, resTy types.Type) *Val {
		u := fr.u
		v, k := args[0].T, args[1].T
		rvDecls(u)
		u.libpre(fr, st, "reflect.Value.MapIndex", and(fmt.Sprintf("(= %s 21)", rvKind(u, v)), app("rv_valid", k), u.assignableDef(app("rv_type", k), fmt.Sprintf("(keyT (rv_type %s))", v))), pos, "reflect: MapIndex on a non-map or with a key of the wrong type panics")
		u.fn("rv_mapval", []string{"RV", "Iface"}, "RV")
		r := app("rv_mapval", v, app("rv_iface", k))
		// a key handed out by MapKeys is found again only if it equals itself: a NaN float (also inside an interface
		// key) is a key of the map that no lookup finds - MapIndex returns the zero Value for it
		u.fact(implies(and(app("rv_iskey", v, k), selfEqualKind(fmt.Sprintf("(kind (ityp (rv_iface %s)))", k))), app("rv_valid", r)))
		u.fact(implies(app("rv_valid", r), eq(app("rv_type", r), fmt.Sprintf("(elemT (rv_type %s))", v))))
		return rvRet(r, resTy)
	})
	// ---------------- map iterators ----------------
	mapIterFacts := func(u *Unit, v string) {
		ln := app("rv_len", v)
		u.fact(and(fmt.Sprintf("(>= %s 0)", ln), fmt.Sprintf("(< %s 281474976710656)", ln)))
		u.fn("rv_key", []string{"RV", "Int"}, "RV")
		u.fn("rv_keyidx", []string{"RV", "Iface"}, "Int")
		u.fn("rv_mapval", []string{"RV", "Iface"}, "RV")
		u.fact(fmt.Sprintf("(forall ((qx Iface)) (! (=> (rv_valid (rv_mapval %s qx)) (and (<= 0 (rv_keyidx %s qx)) (< (rv_keyidx %s qx) (rv_len %s)) (= (rv_iface (rv_key %s (rv_keyidx %s qx))) qx))) :pattern ((rv_mapval %s qx))))", v, v, v, v, v, v, v))
		u.fact(fmt.Sprintf("(forall ((qi Int)) (! (and (rv_valid (rv_key %s qi)) (rv_iskey %s (rv_key %s qi)) (= (rv_type (rv_key %s qi)) (keyT (rv_type %s)))) :pattern ((rv_key %s qi))))", v, v, v, v, v, v))
		// a key of a Go map is hashable: its dynamic kind is not slice, map or func
		u.fact(fmt.Sprintf("(forall ((qi Int)) (! (let ((k (kind (ityp (rv_iface (rv_key %s qi)))))) (and (distinct k 23) (distinct k 21) (distinct k 19))) :pattern ((rv_key %s qi))))", v, v))
		entryValFacts(u, v)
	}
	reg("(reflect.Value).MapRange", "Value.MapRange: panics unless kind is Map; returns an iterator positioned before the first of the Len() entries (the same enumeration MapKeys returns)", func(fr *Frame, st *State, callee *ssa.Function, args []*Val, pos token.Pos, resTy types.Type) *Val {
		u := fr.u
		v := args[0].T
		rvDecls(u)
		u.libpre(fr, st, "reflect.Value.MapRange", fmt.Sprintf("(= %s 21)", rvKind(u, v)), pos, "reflect: MapRange of a non-map panics")
		mapIterFacts(u, v)
		it := u.allocRef(st, "mapiter")
		u.fact(eq(app(u.fn("miter_rv", []string{"Ref"}, "RV"), it), v))
		u.ghostSort["miter_pos"] = "(Array Ref Int)"
		n := u.w.newConst("miter_pos", "(Array Ref Int)")
		u.fact(eq(n, fmt.Sprintf("(store %s %s (- 1))", u.ghostOf(st, "miter_pos"), it)))
		st.ghost["miter_pos"] = n
		return term(it, resTy)
	})
	miterPos := func(u *Unit, st *State, it string) string {
		u.ghostSort["miter_pos"] = "(Array Ref Int)"
		return fmt.Sprintf("(select %s %s)", u.ghostOf(st, "miter_pos"), it)
	}
	reg("(*reflect.MapIter).Next", "MapIter.Next: advances to the next entry; false when the Len() entries are exhausted", func(fr *Frame, st *State, callee *ssa.Function, args []*Val, pos token.Pos, resTy types.Type) *Val {
		u := fr.u
		it := args[0].T
		u.oblige(fr, st, "nil", "mapiter", fmt.Sprintf("(distinct %s nil)", it), pos, "Next through a nil *reflect.MapIter")
		v := app(u.fn("miter_rv", []string{"Ref"}, "RV"), it)
		rvDecls(u)
		np := u.w.newConst("miterpos", "Int")
		u.fact(eq(np, fmt.Sprintf("(+ %s 1)", miterPos(u, st, it))))
		n := u.w.newConst("miter_pos", "(Array Ref Int)")
		u.fact(eq(n, fmt.Sprintf("(store %s %s %s)", u.ghostOf(st, "miter_pos"), it, np)))
		st.ghost["miter_pos"] = n
		return term(fmt.Sprintf("(< %s (rv_len %s))", np, v), resTy)
	})
	stdModsets["(*reflect.MapIter).Next"] = func(u *Unit) *modset {
		u.ghostSort["miter_pos"] = "(Array Ref Int)"
		return &modset{keys: map[string]bool{}, ghosts: map[string]bool{"miter_pos": true}}
	}
	for _, which := range []string{"Key", "Value"} {
		which := which
		reg("(*reflect.MapIter)."+which, "MapIter."+which+": panics before the first or after the last Next; the key (value) of the current entry - always a valid Value, also for keys no lookup finds (NaN)", func(fr *Frame, st *State, callee *ssa.Function, args []*Val, pos token.Pos, resTy types.Type) *Val {
			u := fr.u
			it := args[0].T
			v := app(u.fn("miter_rv", []string{"Ref"}, "RV"), it)
			rvDecls(u)
			mapIterFacts(u, v)
			p := miterPos(u, st, it)
			u.libpre(fr, st, "reflect.MapIter."+which, and(fmt.Sprintf("(distinct %s nil)", it), fmt.Sprintf("(<= 0 %s)", p), fmt.Sprintf("(< %s (rv_len %s))", p, v)), pos, "reflect: MapIter."+which+" called before Next or after the iterator is exhausted panics")
			k := fmt.Sprintf("(rv_key %s %s)", v, p)
			if which == "Key" {
				return rvRet(k, resTy)
			}
			return rvRet(fmt.Sprintf("(rv_entryval %s %s)", v, p), resTy)
		})
	}
	reg("(reflect.Value).FieldByName", "Value.FieldByName: panics unless kind is Struct; zero Value if there is no such field", func(fr *Frame, st *State, callee *ssa.Function, args []*Val, pos token.Pos, resTy types.Type) *Val {
		u := fr.u
		v, n := args[0].T, args[1].T
		rvDecls(u)
		u.libpre(fr, st, "reflect.Value.FieldByName", fmt.Sprintf("(= %s 25)", rvKind(u, v)), pos, "reflect: FieldByName of a non-struct panics")
		return rvRet(app("rv_field", v, n), resTy)
	})
	reg("(reflect.Value).FieldByIndex", "Value.FieldByIndex: panics unless kind is Struct (and on nil embedded pointers)", func(fr *Frame, st *State, callee *ssa.Function, args []*Val, pos token.Pos, resTy types.Type) *Val {
		u := fr.u
		v := args[0].T
		rvDecls(u)
		u.libpre(fr, st, "reflect.Value.FieldByIndex", fmt.Sprintf("(= %s 25)", rvKind(u, v)), pos, "reflect: FieldByIndex of a non-struct panics")
		r := freshRV(u, "fieldbyindex")
		u.fact(app("rv_valid", r))
		u.fact(eq(app("rv_canset", r), app("rv_canset", v)))
		return rvRet(r, resTy)
	})
	reg("(reflect.Value).MethodByName", "Value.MethodByName: panics on the zero Value; zero Value if no such method", func(fr *Frame, st *State, callee *ssa.Function, args []*Val, pos token.Pos, resTy types.Type) *Val {
		u := fr.u
		v, n := args[0].T, args[1].T
		rvDecls(u)
		u.libpre(fr, st, "reflect.Value.MethodByName", app("rv_valid", v), pos, "reflect: MethodByName of zero Value panics")
		r := app("rv_method", v, n)
		u.fact(implies(app("rv_valid", r), and(fmt.Sprintf("(= (kind (rv_type %s)) 19)", r), not(app("rv_isnil", r)))))
		return rvRet(r, resTy)
	})
	reg("(reflect.Value).Elem", "Value.Elem: panics unless kind is Interface or Pointer; zero Value for nil", func(fr *Frame, st *State, callee *ssa.Function, args []*Val, pos token.Pos, resTy types.Type) *Val {
		u := fr.u
		v := args[0].T
		rvDecls(u)
		u.libpre(fr, st, "reflect.Value.Elem", kindIn(rvKind(u, v), 20, 22), pos, "reflect: Elem of a value that is neither interface nor pointer panics")
		r := app("rv_elem", v)
		u.fact(eq(app("rv_valid", r), not(app("rv_isnil", v))))
		u.fact(implies(fmt.Sprintf("(= %s 22)", rvKind(u, v)), and(eq(app("rv_type", r), fmt.Sprintf("(elemT (rv_type %s))", v)), implies(app("rv_valid", r), app("rv_canset", r)))))
		return rvRet(r, resTy)
	})
	reg("reflect.New", "reflect.New(t): panics for a nil type; returns a valid non-nil pointer to a settable zero value of t", func(fr *Frame, st *State, callee *ssa.Function, args []*Val, pos token.Pos, resTy types.Type) *Val {
		u := fr.u
		t := args[0].T
		rvDecls(u)
		u.libpre(fr, st, "reflect.New", fmt.Sprintf("(distinct (ityp %s) T_nil)", t), pos, "reflect.New(nil) panics")
		r := freshRV(u, "rvnew")
		tt := u.tagOfRtype(t)
		u.fact(and(app("rv_valid", r), not(app("rv_isnil", r)), eq(app("rv_type", r), app("ptrTo", tt)), fmt.Sprintf("(= (kind (ptrTo %s)) 22)", tt), eq(app("elemT", app("ptrTo", tt)), tt)))
		fr.bumpNow(st)
		return rvRet(r, resTy)
	})
	reg("(reflect.Value).Set", "Value.Set(x): panics unless the target is settable, x is valid and assignable to the target's type. The mutation of the target is not modelled.", func(fr *Frame, st *State, callee *ssa.Function, args []*Val, pos token.Pos, resTy types.Type) *Val {
		u := fr.u
		v, x := args[0].T, args[1].T
		rvDecls(u)
		u.libpre(fr, st, "reflect.Value.Set.valid", app("rv_valid", x), pos, "reflect: Set of the zero Value (nil) panics")
		u.libpre(fr, st, "reflect.Value.Set.canset", app("rv_canset", v), pos, "reflect: Set on an unsettable target panics")
		u.libpre(fr, st, "reflect.Value.Set.assignable", u.assignableDef(app("rv_type", x), app("rv_type", v)), pos, "reflect: Set with an unassignable value panics")
		u.note("reflect.Value.Set: the written value is not tracked (reflect-built results are opaque)")
		return &Val{K: vNone}
	})
	reg("(reflect.Value).SetMapIndex", "Value.SetMapIndex(k,e): panics unless kind is Map, the map is non-nil, k assignable to the key type, e (if valid) assignable to the element type", func(fr *Frame, st *State, callee *ssa.Function, args []*Val, pos token.Pos, resTy types.Type) *Val {
		u := fr.u
		v, k, e := args[0].T, args[1].T, args[2].T
		rvDecls(u)
		u.libpre(fr, st, "reflect.Value.SetMapIndex", and(fmt.Sprintf("(= %s 21)", rvKind(u, v)), not(app("rv_isnil", v)), app("rv_valid", k),
			u.assignableDef(app("rv_type", k), fmt.Sprintf("(keyT (rv_type %s))", v)),
			implies(app("rv_valid", e), u.assignableDef(app("rv_type", e), fmt.Sprintf("(elemT (rv_type %s))", v)))), pos, "reflect: SetMapIndex with unassignable key/value or on a nil map panics")
		u.note("reflect.Value.SetMapIndex: the written entry is not tracked (reflect-built results are opaque)")
		return &Val{K: vNone}
	})
	reg("(reflect.Value).Call", "Value.Call(args): panics unless kind is Func, non-nil, len(args)==NumIn and every argument is valid and assignable; returns NumOut values", func(fr *Frame, st *State, callee *ssa.Function, args []*Val, pos token.Pos, resTy types.Type) *Val {
		u := fr.u
		v, as := args[0].T, args[1].T
		rvDecls(u)
		u.fn("t_numin", []string{"TypeTag"}, "Int")
		u.fn("t_numout", []string{"TypeTag"}, "Int")
		u.fn("t_in", []string{"TypeTag", "Int"}, "TypeTag")
		u.fn("t_out", []string{"TypeTag", "Int"}, "TypeTag")
		ft := app("rv_type", v)
		rvT := resTy.Underlying().(*types.Slice).Elem()
		inArr := u.sel1(u.heapOf(st, u.regA(rvT)), fmt.Sprintf("(sdata %s)", as))
		argsOK := fmt.Sprintf("(forall ((qi Int)) (=> (and (<= 0 qi) (< qi (slen %s))) (and (rv_valid (select %s (+ (soff %s) qi))) %s)))", as, inArr, as,
			u.assignableDef(fmt.Sprintf("(rv_type (select %s (+ (soff %s) qi)))", inArr, as), fmt.Sprintf("(t_in %s qi)", ft)))
		u.libpre(fr, st, "reflect.Value.Call", and(fmt.Sprintf("(= %s 19)", rvKind(u, v)), not(app("rv_isnil", v)), eq(fmt.Sprintf("(slen %s)", as), app("t_numin", ft)), argsOK), pos, "reflect: Call with wrong argument count/types or on a nil func panics")
		n := app("t_numout", ft)
		u.fact(fmt.Sprintf("(>= %s 0)", n))
		s, arr := u.freshSlice(st, rvT, n, "callres")
		u.fact(fmt.Sprintf("(forall ((qi Int)) (! (and (rv_valid (select %s qi)) (= (rv_type (select %s qi)) (t_out %s qi))) :pattern ((select %s qi))))", arr, arr, ft, arr))
		// ghost: the function value was invoked
		gk := "rvcalls"
		u.ghostSort[gk] = "Int"
		nn := u.w.newConst("rvcalls", "Int")
		u.fact(eq(nn, fmt.Sprintf("(+ %s 1)", u.ghostOf(st, gk))))
		st.ghost[gk] = nn
		fr.bumpNow(st)
		return term(s, resTy)
	})
	reg("reflect.SliceOf", "reflect.SliceOf(t): panics for nil t", func(fr *Frame, st *State, callee *ssa.Function, args []*Val, pos token.Pos, resTy types.Type) *Val {
		u := fr.u
		t := args[0].T
		u.libpre(fr, st, "reflect.SliceOf", fmt.Sprintf("(distinct (ityp %s) T_nil)", t), pos, "reflect.SliceOf(nil) panics")
		tt := app("sliceOf", u.tagOfRtype(t))
		u.fact(and(fmt.Sprintf("(= (kind %s) 23)", tt), eq(app("elemT", tt), u.tagOfRtype(t))))
		return term(u.rtypeOfTag(tt), resTy)
	})
	reg("reflect.MapOf", "reflect.MapOf(k,v): panics for nil types or a key type that is not comparable", func(fr *Frame, st *State, callee *ssa.Function, args []*Val, pos token.Pos, resTy types.Type) *Val {
		u := fr.u
		k, v := args[0].T, args[1].T
		kt, vt := u.tagOfRtype(k), u.tagOfRtype(v)
		u.libpre(fr, st, "reflect.MapOf", and(fmt.Sprintf("(distinct (ityp %s) T_nil)", k), fmt.Sprintf("(distinct (ityp %s) T_nil)", v), app("comparable", kt)), pos, "reflect.MapOf with nil or uncomparable key type panics")
		tt := app("mapOf", kt, vt)
		u.fact(and(fmt.Sprintf("(= (kind %s) 21)", tt), eq(app("elemT", tt), vt), eq(app("keyT", tt), kt)))
		return term(u.rtypeOfTag(tt), resTy)
	})
	reg("reflect.MakeSlice", "reflect.MakeSlice(t,len,cap): panics unless t is a slice type and 0<=len<=cap; elements are settable", func(fr *Frame, st *State, callee *ssa.Function, args []*Val, pos token.Pos, resTy types.Type) *Val {
		u := fr.u
		t, ln, cp := args[0].T, args[1].T, args[2].T
		rvDecls(u)
		tt := u.tagOfRtype(t)
		u.libpre(fr, st, "reflect.MakeSlice", and(fmt.Sprintf("(distinct (ityp %s) T_nil)", t), fmt.Sprintf("(= (kind %s) 23)", tt), fmt.Sprintf("(<= 0 %s)", ln), fmt.Sprintf("(<= %s %s)", ln, cp)), pos, "reflect.MakeSlice of a non-slice type or with bad length panics")
		r := freshRV(u, "rvmakeslice")
		u.fact(and(app("rv_valid", r), eq(app("rv_type", r), tt), eq(app("rv_len", r), ln), fmt.Sprintf("(= (ityp (rv_iface %s)) %s)", r, tt)))
		fr.bumpNow(st)
		return rvRet(r, resTy)
	})
	reg("reflect.MakeMapWithSize", "reflect.MakeMapWithSize(t,n): panics unless t is a map type", func(fr *Frame, st *State, callee *ssa.Function, args []*Val, pos token.Pos, resTy types.Type) *Val {
		u := fr.u
		t := args[0].T
		rvDecls(u)
		tt := u.tagOfRtype(t)
		u.libpre(fr, st, "reflect.MakeMapWithSize", and(fmt.Sprintf("(distinct (ityp %s) T_nil)", t), fmt.Sprintf("(= (kind %s) 21)", tt)), pos, "reflect.MakeMapWithSize of a non-map type panics")
		r := freshRV(u, "rvmakemap")
		u.fact(and(app("rv_valid", r), eq(app("rv_type", r), tt), not(app("rv_isnil", r)), fmt.Sprintf("(= (ityp (rv_iface %s)) %s)", r, tt)))
		fr.bumpNow(st)
		return rvRet(r, resTy)
	})
	reg("reflect.DeepEqual", "reflect.DeepEqual: total, uninterpreted", func(fr *Frame, st *State, callee *ssa.Function, args []*Val, pos token.Pos, resTy types.Type) *Val {
		u := fr.u
		return term(app(u.fn("deepequal", []string{"Iface", "Iface"}, "Bool"), args[0].T, args[1].T), tBool)
	})
	reg("(reflect.StructTag).Get", "StructTag.Get: total, uninterpreted", func(fr *Frame, st *State, callee *ssa.Function, args []*Val, pos token.Pos, resTy types.Type) *Val {
		u := fr.u
		return term(app(u.fn("tag_get", []string{"Str", "Str"}, "Str"), args[0].T, args[1].T), tString)
	})

	// ---- reflect.Type (interface) ----
	regI("(reflect.Type).Kind", "Type.Kind", func(fr *Frame, st *State, recv *Val, args []*Val, pos token.Pos, resTy types.Type) *Val {
		return term(app("kind", fr.u.tagOfRtype(recv.T)), resTy)
	})
	regI("(reflect.Type).Elem", "Type.Elem: panics unless kind is Array, Chan, Map, Pointer or Slice", func(fr *Frame, st *State, recv *Val, args []*Val, pos token.Pos, resTy types.Type) *Val {
		u := fr.u
		tt := u.tagOfRtype(recv.T)
		u.libpre(fr, st, "reflect.Type.Elem", kindIn(app("kind", tt), 17, 18, 21, 22, 23), pos, "reflect: Elem of a type without element type panics")
		return term(u.rtypeOfTag(app("elemT", tt)), resTy)
	})
	regI("(reflect.Type).AssignableTo", "Type.AssignableTo(u): identical types or u is an interface type (over-approximated for non-empty interfaces)", func(fr *Frame, st *State, recv *Val, args []*Val, pos token.Pos, resTy types.Type) *Val {
		u := fr.u
		u.libpre(fr, st, "reflect.Type.AssignableTo", fmt.Sprintf("(distinct (ityp %s) T_nil)", args[0].T), pos, "reflect: nil type passed to AssignableTo")
		return term(u.assignableDef(u.tagOfRtype(recv.T), u.tagOfRtype(args[0].T)), tBool)
	})
	regI("(reflect.Type).Key", "Type.Key: panics unless kind is Map", func(fr *Frame, st *State, recv *Val, args []*Val, pos token.Pos, resTy types.Type) *Val {
		u := fr.u
		tt := u.tagOfRtype(recv.T)
		u.libpre(fr, st, "reflect.Type.Key", fmt.Sprintf("(= (kind %s) 21)", tt), pos, "reflect: Key of non-map type panics")
		return term(u.rtypeOfTag(app("keyT", tt)), resTy)
	})
	regI("(reflect.Type).String", "Type.String: total, uninterpreted", func(fr *Frame, st *State, recv *Val, args []*Val, pos token.Pos, resTy types.Type) *Val {
		u := fr.u
		return term(app(u.fn("t_string", []string{"TypeTag"}, "Str"), u.tagOfRtype(recv.T)), tString)
	})
	regI("(reflect.Type).Name", "Type.Name: total, uninterpreted", func(fr *Frame, st *State, recv *Val, args []*Val, pos token.Pos, resTy types.Type) *Val {
		u := fr.u
		return term(app(u.fn("t_name", []string{"TypeTag"}, "Str"), u.tagOfRtype(recv.T)), tString)
	})
	regI("(reflect.Type).NumIn", "Type.NumIn: panics unless kind is Func", func(fr *Frame, st *State, recv *Val, args []*Val, pos token.Pos, resTy types.Type) *Val {
		u := fr.u
		tt := u.tagOfRtype(recv.T)
		u.libpre(fr, st, "reflect.Type.NumIn", fmt.Sprintf("(= (kind %s) 19)", tt), pos, "reflect: NumIn of non-func type panics")
		r := app(u.fn("t_numin", []string{"TypeTag"}, "Int"), tt)
		u.fact(and(fmt.Sprintf("(>= %s 0)", r), fmt.Sprintf("(< %s 65536)", r)))
		return term(r, tInt)
	})
	regI("(reflect.Type).NumOut", "Type.NumOut: panics unless kind is Func", func(fr *Frame, st *State, recv *Val, args []*Val, pos token.Pos, resTy types.Type) *Val {
		u := fr.u
		tt := u.tagOfRtype(recv.T)
		u.libpre(fr, st, "reflect.Type.NumOut", fmt.Sprintf("(= (kind %s) 19)", tt), pos, "reflect: NumOut of non-func type panics")
		r := app(u.fn("t_numout", []string{"TypeTag"}, "Int"), tt)
		u.fact(and(fmt.Sprintf("(>= %s 0)", r), fmt.Sprintf("(< %s 65536)", r)))
		return term(r, tInt)
	})
	regI("(reflect.Type).In", "Type.In(i): panics unless kind is Func and 0<=i<NumIn", func(fr *Frame, st *State, recv *Val, args []*Val, pos token.Pos, resTy types.Type) *Val {
		u := fr.u
		tt := u.tagOfRtype(recv.T)
		u.fn("t_numin", []string{"TypeTag"}, "Int")
		u.libpre(fr, st, "reflect.Type.In", and(fmt.Sprintf("(= (kind %s) 19)", tt), fmt.Sprintf("(<= 0 %s)", args[0].T), fmt.Sprintf("(< %s (t_numin %s))", args[0].T, tt)), pos, "reflect: In(i) out of range panics")
		return term(u.rtypeOfTag(app(u.fn("t_in", []string{"TypeTag", "Int"}, "TypeTag"), tt, args[0].T)), resTy)
	})
	regI("(reflect.Type).Out", "Type.Out(i): panics unless kind is Func and 0<=i<NumOut", func(fr *Frame, st *State, recv *Val, args []*Val, pos token.Pos, resTy types.Type) *Val {
		u := fr.u
		tt := u.tagOfRtype(recv.T)
		u.fn("t_numout", []string{"TypeTag"}, "Int")
		u.libpre(fr, st, "reflect.Type.Out", and(fmt.Sprintf("(= (kind %s) 19)", tt), fmt.Sprintf("(<= 0 %s)", args[0].T), fmt.Sprintf("(< %s (t_numout %s))", args[0].T, tt)), pos, "reflect: Out(i) out of range panics")
		return term(u.rtypeOfTag(app(u.fn("t_out", []string{"TypeTag", "Int"}, "TypeTag"), tt, args[0].T)), resTy)
	})
	for _, m := range []string{"FieldByName", "FieldByNameFunc"} {
		m := m
		regI("(reflect.Type)."+m, "Type."+m+": panics unless kind is Struct; result unconstrained", func(fr *Frame, st *State, recv *Val, args []*Val, pos token.Pos, resTy types.Type) *Val {
			u := fr.u
			tt := u.tagOfRtype(recv.T)
			u.libpre(fr, st, "reflect.Type."+m, fmt.Sprintf("(= (kind %s) 25)", tt), pos, "reflect: "+m+" of non-struct type panics")
			return fr.havocResults(st, resTy, m)
		})
	}

	// ---- strings / math / regexp / maps / sort / json ----
	for _, nm := range []string{"strings.TrimRight", "strings.TrimSpace", "strings.TrimLeft", "strings.TrimSuffix", "strings.TrimPrefix", "strings.ToUpper", "strings.Repeat", "strings.ReplaceAll", "regexp.QuoteMeta"} {
		nm := nm
		reg(nm, nm+": total, uninterpreted function of its arguments", func(fr *Frame, st *State, callee *ssa.Function, args []*Val, pos token.Pos, resTy types.Type) *Val {
			u := fr.u
			var sorts, ts []string
			for _, a := range args {
				sorts = append(sorts, u.w.sortOf(a.Ty))
				ts = append(ts, a.T)
			}
			r := app(u.fn(quote("fn:"+nm), sorts, "Str"), ts...)
			nmc := u.w.newConst("s", "Str")
			u.fact(eq(nmc, r))
			u.fact(fmt.Sprintf("(>= (strlen %s) 0)", nmc))
			return term(nmc, tString)
		})
	}
	for _, nm := range []string{"strings.Contains", "strings.HasPrefix", "strings.HasSuffix"} {
		nm := nm
		reg(nm, nm+": total, uninterpreted predicate", func(fr *Frame, st *State, callee *ssa.Function, args []*Val, pos token.Pos, resTy types.Type) *Val {
			u := fr.u
			return term(app(u.fn(quote("fn:"+nm), []string{"Str", "Str"}, "Bool"), args[0].T, args[1].T), tBool)
		})
	}
	reg("strings.SplitN", "strings.SplitN: total; fresh slice, at least one element when n != 0", func(fr *Frame, st *State, callee *ssa.Function, args []*Val, pos token.Pos, resTy types.Type) *Val {
		u := fr.u
		n := u.w.newConst("splitn", "Int")
		u.fact(and(fmt.Sprintf("(>= %s 0)", n), implies(fmt.Sprintf("(distinct %s 0)", args[2].T), fmt.Sprintf("(>= %s 1)", n)), fmt.Sprintf("(< %s 281474976710656)", n)))
		s, _ := u.freshSlice(st, tString, n, "split")
		return term(s, resTy)
	})
	reg("math.Floor", "math.Floor: IEEE round toward negative infinity", func(fr *Frame, st *State, callee *ssa.Function, args []*Val, pos token.Pos, resTy types.Type) *Val {
		return term(fmt.Sprintf("(fp.roundToIntegral RTN %s)", args[0].T), resTy)
	})
	reg("(*regexp.Regexp).MatchString", "Regexp.MatchString: panics on a nil receiver; otherwise an uninterpreted predicate of (regexp, string)", func(fr *Frame, st *State, callee *ssa.Function, args []*Val, pos token.Pos, resTy types.Type) *Val {
		u := fr.u
		u.libpre(fr, st, "regexp.Regexp.MatchString", fmt.Sprintf("(distinct %s nil)", args[0].T), pos, "nil *regexp.Regexp")
		return term(app(u.fn("re_match", []string{"Ref", "Str"}, "Bool"), args[0].T, args[1].T), tBool)
	})
	reg("(*regexp.Regexp).String", "Regexp.String: panics on a nil receiver; uninterpreted", func(fr *Frame, st *State, callee *ssa.Function, args []*Val, pos token.Pos, resTy types.Type) *Val {
		u := fr.u
		u.libpre(fr, st, "regexp.Regexp.String", fmt.Sprintf("(distinct %s nil)", args[0].T), pos, "nil *regexp.Regexp")
		return term(app(u.fn("re_string", []string{"Ref"}, "Str"), args[0].T), tString)
	})
	reg("(*regexp.Regexp).SubexpNames", "Regexp.SubexpNames: fresh slice", func(fr *Frame, st *State, callee *ssa.Function, args []*Val, pos token.Pos, resTy types.Type) *Val {
		u := fr.u
		u.libpre(fr, st, "regexp.Regexp.SubexpNames", fmt.Sprintf("(distinct %s nil)", args[0].T), pos, "nil *regexp.Regexp")
		n := app(u.fn("re_numsubexp1", []string{"Ref"}, "Int"), args[0].T)
		u.fact(and(fmt.Sprintf("(>= %s 1)", n), fmt.Sprintf("(< %s 65536)", n)))
		s, _ := u.freshSlice(st, tString, n, "subexp")
		return term(s, resTy)
	})
	reg("(*regexp.Regexp).FindStringSubmatch", "Regexp.FindStringSubmatch: nil when there is no match, else a fresh slice of NumSubexp+1 strings", func(fr *Frame, st *State, callee *ssa.Function, args []*Val, pos token.Pos, resTy types.Type) *Val {
		u := fr.u
		u.libpre(fr, st, "regexp.Regexp.FindStringSubmatch", fmt.Sprintf("(distinct %s nil)", args[0].T), pos, "nil *regexp.Regexp")
		n := app(u.fn("re_numsubexp1", []string{"Ref"}, "Int"), args[0].T)
		u.fact(and(fmt.Sprintf("(>= %s 1)", n), fmt.Sprintf("(< %s 65536)", n)))
		m := app(u.fn("re_match", []string{"Ref", "Str"}, "Bool"), args[0].T, args[1].T)
		s, _ := u.freshSlice(st, tString, n, "submatch")
		r := u.w.newConst("submatchres", "Slice")
		u.fact(eq(r, ite(m, s, "(mkSlice nil 0 0 0)")))
		return term(r, resTy)
	})
	for _, nm := range []string{"regexp.Compile", "regexp.MustCompile"} {
		nm := nm
		reg(nm, nm+": a fresh non-nil *Regexp when the pattern is valid (uninterpreted predicate); MustCompile panics otherwise", func(fr *Frame, st *State, callee *ssa.Function, args []*Val, pos token.Pos, resTy types.Type) *Val {
			u := fr.u
			ok := app(u.fn("re_valid", []string{"Str"}, "Bool"), args[0].T)
			r := u.allocRef(st, "regexp")
			u.fact(eq(app(u.fn("re_string", []string{"Ref"}, "Str"), r), args[0].T))
			if nm == "regexp.MustCompile" {
				u.libpre(fr, st, "regexp.MustCompile", ok, pos, "regexp.MustCompile of an invalid pattern panics")
				return term(r, resTy)
			}
			e := u.w.newConst("reerr", "Iface")
			u.fact(eq(fmt.Sprintf("(= (ityp %s) T_nil)", e), ok))
			u.fact(implies(not(ok), and(fmt.Sprintf("(= (ityp %s) %s)", e, u.w.opaqueTag("*syntax.Error", 22)), not(app(u.fn("as_ce_ok", []string{"Iface"}, "Bool"), e)))))
			u.fact(implies(ok, eq(e, "nilIface")))
			tup := resTy.(*types.Tuple)
			return &Val{K: vTuple, Elems: []*Val{term(ite(ok, r, "nil"), tup.At(0).Type()), term(e, tup.At(1).Type())}}
		})
	}
	reg("maps.Clone", "maps.Clone(m): nil for nil; otherwise a fresh map with the same keys and values", func(fr *Frame, st *State, callee *ssa.Function, args []*Val, pos token.Pos, resTy types.Type) *Val {
		u := fr.u
		m := args[0].T
		mt := resTy.Underlying().(*types.Map)
		kd, kv, kl := u.regM(mt)
		dom, val, ln := u.mapDom(st, mt, m), u.mapVal(st, mt, m), u.mapLen(st, mt, m)
		r := u.allocRef(st, "mapclone")
		st.heap[kd] = u.nameHeap(kd, fmt.Sprintf("(store %s %s %s)", u.heapOf(st, kd), r, dom))
		st.heap[kv] = u.nameHeap(kv, fmt.Sprintf("(store %s %s %s)", u.heapOf(st, kv), r, val))
		st.heap[kl] = u.nameHeap(kl, fmt.Sprintf("(store %s %s %s)", u.heapOf(st, kl), r, ln))
		res := u.w.newConst("cloned", "Ref")
		u.fact(eq(res, ite(fmt.Sprintf("(= %s nil)", m), "nil", r)))
		return term(res, resTy)
	})
	stdModsets["maps.Clone"] = func(u *Unit) *modset { return &modset{keys: map[string]bool{}, ghosts: map[string]bool{}} }
	// ---------------- CBOR codec (opaque) ----------------
	for _, nm := range []string{"github.com/fxamacker/cbor/v2.NewDecoder", "github.com/fxamacker/cbor/v2.NewEncoder"} {
		nm := nm
		reg(nm, nm+": returns a new, non-nil codec object; a decoder made this way uses the default options (unknown fields are ignored: strictdec is false)", func(fr *Frame, st *State, callee *ssa.Function, args []*Val, pos token.Pos, resTy types.Type) *Val {
			r := fr.u.allocRef(st, "cbor")
			if strings.HasSuffix(nm, "NewDecoder") {
				fr.u.fact(not(app(fr.u.fn("cbor_strictdec", []string{"Ref"}, "Bool"), r)))
			}
			return term(r, resTy)
		})
	}
	regI("(cbor.DecMode).NewDecoder", "cbor.DecMode.NewDecoder(r): returns a new, non-nil decoder that rejects unknown fields exactly when the mode does (strictdec)", func(fr *Frame, st *State, recv *Val, args []*Val, pos token.Pos, resTy types.Type) *Val {
		u := fr.u
		r := u.allocRef(st, "cbor")
		u.fact(eq(app(u.fn("cbor_strictdec", []string{"Ref"}, "Bool"), r), app(u.fn("cbor_strictmode", []string{"Iface"}, "Bool"), fr.asTerm(recv, st))))
		return term(r, resTy)
	})
	reg("(github.com/fxamacker/cbor/v2.DecOptions).DecMode", "cbor.DecOptions.DecMode(): for the constant, valid options used by the SDK it returns a non-nil mode and a nil error", func(fr *Frame, st *State, callee *ssa.Function, args []*Val, pos token.Pos, resTy types.Type) *Val {
		u := fr.u
		tup := resTy.(*types.Tuple)
		dm := u.w.newConst("decmode", "Iface")
		u.fact(fmt.Sprintf("(distinct (ityp %s) T_nil)", dm))
		// the mode rejects unknown fields exactly when the options ask for it (ExtraDecErrorUnknownField == 1). The
		// options are a composite literal of an external struct type: its field is read off the SSA (one constant
		// store into the literal's ExtraReturnErrors field); anything else leaves the strictness unconstrained.
		if stt, ok := callee.Signature.Recv().Type().Underlying().(*types.Struct); ok && fr.curInstr != nil {
			fi := -1
			for i := 0; i < stt.NumFields(); i++ {
				if stt.Field(i).Name() == "ExtraReturnErrors" {
					fi = i
				}
			}
			if ci, ok := fr.curInstr.(ssa.CallInstruction); ok && fi >= 0 && len(ci.Common().Args) > 0 {
				if ld, ok := ci.Common().Args[0].(*ssa.UnOp); ok && ld.Op == token.MUL {
					if al, ok := ld.X.(*ssa.Alloc); ok && al.Referrers() != nil {
						stores, strict, known := 0, false, true
						for _, r := range *al.Referrers() {
							fa, ok := r.(*ssa.FieldAddr)
							if !ok || fa.Field != fi || fa.Referrers() == nil {
								continue
							}
							for _, r2 := range *fa.Referrers() {
								if sto, ok := r2.(*ssa.Store); ok && sto.Addr == ssa.Value(fa) {
									stores++
									if c, ok := sto.Val.(*ssa.Const); ok && c.Value != nil {
										strict = c.Uint64()&1 != 0
									} else {
										known = false
									}
								} else {
									known = false
								}
							}
						}
						if known && stores <= 1 {
							sm := app(u.fn("cbor_strictmode", []string{"Iface"}, "Bool"), dm)
							if strict {
								u.fact(sm)
							} else {
								u.fact(not(sm))
							}
						}
					}
				}
			}
		}
		u.assume["cbor.DecOptions{ExtraReturnErrors: ExtraDecErrorUnknownField}.DecMode() succeeds (constant, valid options)"] = true
		return &Val{K: vTuple, Elems: []*Val{term(dm, tup.At(0).Type()), term("(mkIface T_nil boxnil)", tup.At(1).Type())}}
	})
	cborFail := func(fr *Frame, st *State, kind string, err string) {
		// ghost: number of failed decodes of this kind during the call
		u := fr.u
		gk := "cborfail:" + kind
		u.ghostSort[gk] = "Int"
		cur := u.ghostOf(st, gk)
		n := u.w.newConst("cborfail", "Int")
		u.fact(eq(n, ite(fmt.Sprintf("(distinct (ityp %s) T_nil)", err), fmt.Sprintf("(+ %s 1)", cur), cur)))
		st.ghost[gk] = n
	}
	reg("(*github.com/fxamacker/cbor/v2.Decoder).Decode", "cbor.Decoder.Decode(&v): the target becomes unconstrained; the error is unconstrained; ghost(\"cborfail:stream\") counts the failures", func(fr *Frame, st *State, callee *ssa.Function, args []*Val, pos token.Pos, resTy types.Type) *Val {
		u := fr.u
		u.oblige(fr, st, "nil", "cbor", fmt.Sprintf("(distinct %s nil)", args[0].T), pos, "Decode through a nil *cbor.Decoder")
		fr.havocPointee(st, args[1])
		e := u.w.newConst("decodeerr", "Iface")
		for _, f := range u.wfFacts(st, e, resTy, 0) {
			u.fact(f)
		}
		cborFail(fr, st, "stream", e)
		fr.bumpNow(st)
		return term(e, resTy)
	})
	reg("github.com/fxamacker/cbor/v2.Unmarshal", "cbor.Unmarshal(data, &v): the target becomes unconstrained; the error is unconstrained; ghost(\"cborfail:message\") counts the failures", func(fr *Frame, st *State, callee *ssa.Function, args []*Val, pos token.Pos, resTy types.Type) *Val {
		u := fr.u
		fr.havocPointee(st, args[1])
		e := u.w.newConst("unmarshalerr", "Iface")
		for _, f := range u.wfFacts(st, e, resTy, 0) {
			u.fact(f)
		}
		cborFail(fr, st, "message", e)
		fr.bumpNow(st)
		return term(e, resTy)
	})
	reg("(*github.com/fxamacker/cbor/v2.Encoder).Encode", "cbor.Encoder.Encode(v): no effect on modelled memory; the error is unconstrained", func(fr *Frame, st *State, callee *ssa.Function, args []*Val, pos token.Pos, resTy types.Type) *Val {
		u := fr.u
		u.oblige(fr, st, "nil", "cbor", fmt.Sprintf("(distinct %s nil)", args[0].T), pos, "Encode through a nil *cbor.Encoder")
		e := u.w.newConst("encodeerr", "Iface")
		for _, f := range u.wfFacts(st, e, resTy, 0) {
			u.fact(f)
		}
		return term(e, resTy)
	})
	// ---------------- output streams (ghost text) ----------------
	outModset := func(u *Unit) *modset {
		u.ghostSort["out"] = "(Array Ref Str)"
		return &modset{keys: map[string]bool{}, ghosts: map[string]bool{"out": true}}
	}
	appendOut := func(fr *Frame, st *State, w *Val, text string) {
		u := fr.u
		u.ghostSort["out"] = "(Array Ref Str)"
		cur := u.ghostOf(st, "out")
		ref := fr.refOf(w)
		n := u.w.newConst("g:out", "(Array Ref Str)")
		u.fn("strcat", []string{"Str", "Str"}, "Str")
		u.fact(eq(n, fmt.Sprintf("(store %s %s (strcat (select %s %s) %s))", cur, ref, cur, ref, text)))
		st.ghost["out"] = n
	}
	reg("fmt.Fprintf", "fmt.Fprintf(w, format, args...): appends sprintf(format, args) to the ghost text written(w); the byte count and error are unconstrained; the writer's own memory is not modelled", func(fr *Frame, st *State, callee *ssa.Function, args []*Val, pos token.Pos, resTy types.Type) *Val {
		appendOut(fr, st, args[0], fr.u.sprintfTerm(fr, st, args[1], args[2]))
		return fr.havocResults(st, resTy, "fprintf")
	})
	stdModsets["fmt.Fprintf"] = outModset
	reg("fmt.Fprint", "fmt.Fprint(w, s) with one string operand appends s to the ghost text written(w); other operand lists append an unconstrained text", func(fr *Frame, st *State, callee *ssa.Function, args []*Val, pos token.Pos, resTy types.Type) *Val {
		u := fr.u
		text := ""
		if k, ok := u.sliceConstLen[args[1].T]; ok && k == 1 {
			el := u.sliceElem(st, anyType, args[1].T, "0")
			_, ub := u.w.boxFn("Str")
			text = u.w.newConst("fprint", "Str")
			u.fact(implies(eq(fmt.Sprintf("(ityp %s)", el), u.w.tag(tString)), eq(text, fmt.Sprintf("(%s (ival %s))", ub, el))))
		} else {
			text = u.w.newConst("fprint", "Str")
		}
		appendOut(fr, st, args[0], text)
		return fr.havocResults(st, resTy, "fprint")
	})
	stdModsets["fmt.Fprint"] = outModset
	reg("bufio.NewWriter", "bufio.NewWriter(w): a new writer; nothing has been written to it", func(fr *Frame, st *State, callee *ssa.Function, args []*Val, pos token.Pos, resTy types.Type) *Val {
		u := fr.u
		r := u.allocRef(st, "bufw")
		u.ghostSort["out"] = "(Array Ref Str)"
		u.fact(eq(fmt.Sprintf("(select %s %s)", u.ghostOf(st, "out"), r), u.w.strLit("")))
		return term(r, resTy)
	})
	reg("(golang.org/x/text/cases.Caser).String", "cases.Caser.String(s): total; modelled as one uninterpreted function str_title of the string (the caser's configuration is not distinguished)", func(fr *Frame, st *State, callee *ssa.Function, args []*Val, pos token.Pos, resTy types.Type) *Val {
		u := fr.u
		return term(app(u.fn("str_title", []string{"Str"}, "Str"), args[1].T), tString)
	})
	// ---------------- sorting ----------------
	sortStrModset := func(u *Unit) *modset {
		return &modset{keys: map[string]bool{u.regA(tString): true}, ghosts: map[string]bool{}}
	}
	reg("sort.Strings", "sort.Strings(s): rewrites the elements of s in place (length unchanged). When s was filled by one append of the key per iteration of a complete range over a map m, the result holds sortedkey(m, 0..len(m)-1): the keys of m in strictly increasing order; for any other s the new contents are unconstrained", func(fr *Frame, st *State, callee *ssa.Function, args []*Val, pos token.Pos, resTy types.Type) *Val {
		u := fr.u
		s := args[0].T
		hk := u.regA(tString)
		if u.checkFrame {
			fr.frameCheckRef(st, fmt.Sprintf("(sdata %s)", s), "sort", pos)
		}
		old := u.heapOf(st, hk)
		arr := u.w.newConst("sorted", fmt.Sprintf("(Array Int %s)", "Str"))
		data := fmt.Sprintf("(sdata %s)", s)
		// cells outside the slice window keep their values
		j := quote("q:sj")
		u.qsorts[j] = "Int"
		u.fact(fmt.Sprintf("(forall ((%s Int)) (=> (or (< %s (soff %s)) (>= %s (+ (soff %s) (slen %s)))) (= (select %s %s) (select (select %s %s) %s))))", j, j, s, j, s, s, arr, j, old, data, j))
		st.heap[hk] = u.nameHeap(hk, fmt.Sprintf("(store %s %s %s)", old, data, arr))
		if ei := u.enumTag[s]; ei != nil && fr.curInstr != nil && !(ei.fr == fr && ei.fr.loopBody[ei.h][fr.curInstr.Block()]) && ei.fr == fr && (!ei.indexed || ei.h.Dominates(fr.curInstr.Block())) {
			skf := u.sortedKeyFn(ei.mt)
			ml := ite(eq(ei.mapT, "nil"), "0", u.mapLen(st, ei.mt, ei.mapT))
			u.fact(implies(st.pc, eq(fmt.Sprintf("(slen %s)", s), ml)))
			u.fact(implies(st.pc, fmt.Sprintf("(forall ((%s Int)) (=> (and (<= 0 %s) (< %s (slen %s))) (= (select %s (+ (soff %s) %s)) (%s %s %s))))", j, j, j, s, arr, s, j, skf, ei.mapT, j)))
			dom := u.mapDom(st, ei.mt, ei.mapT)
			u.fact(implies(st.pc, fmt.Sprintf("(forall ((%s Int)) (=> (and (<= 0 %s) (< %s %s)) (select %s (%s %s %s))))", j, j, j, ml, dom, skf, ei.mapT, j)))
			if ei.indexed {
				u.assume[idxEnumAssumption] = true
			} else {
				u.assume["a slice that starts empty and receives exactly one append of the key in each iteration of a complete range over a map enumerates the keys of that map, each once (recognised syntactically on the SSA of the loop)"] = true
			}
		}
		delete(u.qsorts, j)
		return &Val{K: vNone}
	})
	stdModsets["sort.Strings"] = sortStrModset
	reg("sort.Slice", "sort.Slice(s, less): permutes s in place; the resulting order is unconstrained (it is a function of the elements only when less is a strict total order, which is not established)", func(fr *Frame, st *State, callee *ssa.Function, args []*Val, pos token.Pos, resTy types.Type) *Val {
		u := fr.u
		x := args[0].T
		done := false
		for key, t := range u.w.tagTypes {
			if t == nil {
				continue
			}
			if sl, ok := t.Underlying().(*types.Slice); ok && len(x) > 0 && containsTag(x, u.w.tags[key]) {
				hk := u.regA(sl.Elem())
				_, ub := u.w.boxFn("Slice")
				fr.frameCheckRef(st, fmt.Sprintf("(sdata (%s (ival %s)))", ub, x), "sort", pos)
				u.havocHeap(st, hk, true, nil)
				done = true
			}
		}
		if !done {
			u.note("sort.Slice on a slice of unknown static type: effect not modelled")
		}
		return &Val{K: vNone}
	})
	stdModsets["sort.Slice"] = func(u *Unit) *modset {
		ms := &modset{keys: map[string]bool{}, ghosts: map[string]bool{}}
		for k := range u.heapSorts {
			if strings.HasPrefix(k, "A:") {
				ms.keys[k] = true
			}
		}
		return ms
	}
	reg("sort.SliceStable", "sort.SliceStable: permutes the slice in place (contents of the backing array become unconstrained)", func(fr *Frame, st *State, callee *ssa.Function, args []*Val, pos token.Pos, resTy types.Type) *Val {
		u := fr.u
		// the slice is boxed in an interface; find its static type from the tag
		x := args[0].T
		done := false
		for key, t := range u.w.tagTypes {
			if t == nil {
				continue
			}
			if sl, ok := t.Underlying().(*types.Slice); ok && len(x) > 0 && containsTag(x, u.w.tags[key]) {
				hk := u.regA(sl.Elem())
				_, ub := u.w.boxFn("Slice")
				fr.frameCheckRef(st, fmt.Sprintf("(sdata (%s (ival %s)))", ub, x), "sort", pos)
				u.havocHeap(st, hk, true, nil)
				done = true
			}
		}
		if !done {
			u.note("sort.SliceStable on a slice of unknown static type: effect not modelled")
		}
		return &Val{K: vNone}
	})
	for _, nm := range []string{"(*sync.Mutex).Lock", "(*sync.Mutex).Unlock", "(*sync.WaitGroup).Wait", "(*sync.WaitGroup).Add", "(*sync.WaitGroup).Done", "(*sync.Cond).Signal", "(*sync.Cond).Broadcast", "(*sync.Cond).Wait"} {
		nm := nm
		reg(nm, nm+": no effect on the sequential model (interleavings are outside the family; see DESIGN)", func(fr *Frame, st *State, callee *ssa.Function, args []*Val, pos token.Pos, resTy types.Type) *Val {
			return fr.syncOp(nm, st, args, pos)
		})
	}
	reg("encoding/json.Unmarshal", "json.Unmarshal(data, &v): total; v becomes unconstrained; error unconstrained", func(fr *Frame, st *State, callee *ssa.Function, args []*Val, pos token.Pos, resTy types.Type) *Val {
		u := fr.u
		// target: interface holding a pointer; havoc the cells of *any it may point to
		k := u.regT(anyType)
		u.havocHeap(st, k, true, nil)
		e := u.w.newConst("jsonerr", "Iface")
		u.fact(implies(fmt.Sprintf("(distinct (ityp %s) T_nil)", e), not(app(u.fn("as_ce_ok", []string{"Iface"}, "Bool"), e))))
		u.note("json.Unmarshal: every *any cell is havocked (target pointer not tracked precisely)")
		return term(e, resTy)
	})
}

// havocPointee: v is an interface value holding a pointer to a struct (or other) value: the pointee becomes
// unconstrained (used for decoders that fill their target)
func (fr *Frame) havocPointee(st *State, v *Val) {
	u := fr.u
	done := false
	for key, t := range u.w.tagTypes {
		if t == nil {
			continue
		}
		pt, ok := t.Underlying().(*types.Pointer)
		if !ok || !containsTag(v.T, u.w.tags[key]) {
			continue
		}
		_, ub := u.w.boxFn("Ref")
		ref := fmt.Sprintf("(%s (ival %s))", ub, v.T)
		if at, isArr := pt.Elem().Underlying().(*types.Array); isArr {
			u.havocHeap(st, u.regA(at.Elem()), true, nil)
			done = true
			continue
		}
		hk := u.regT(pt.Elem())
		nv := u.w.newConst("decoded", u.w.sortOf(pt.Elem()))
		for _, f := range u.wfFacts(st, nv, pt.Elem(), 0) {
			u.fact(f)
		}
		st.heap[hk] = u.nameHeap(hk, fmt.Sprintf("(store %s %s %s)", u.heapOf(st, hk), ref, nv))
		done = true
	}
	if !done {
		u.note("decode into a target of unknown static type: effect on the target not modelled")
	}
}

func containsTag(term string, tag string) bool {
	return len(tag) > 0 && len(term) >= len(tag) && (indexOf(term, tag) >= 0)
}

func indexOf(s, sub string) int {
	for i := 0; i+len(sub) <= len(s); i++ {
		if s[i:i+len(sub)] == sub {
			return i
		}
	}
	return -1
}

// selfEqualKind: values of this reflect.Kind always compare equal to themselves (no NaN inside): bool, the integer
// kinds, chan, pointer, string, unsafe pointer
func selfEqualKind(k string) string {
	return fmt.Sprintf("(or (and (<= 1 %s) (<= %s 12)) (= %s 18) (= %s 22) (= %s 24) (= %s 26))", k, k, k, k, k, k)
}

// entryValFacts: the value of the j-th entry of a map value (what an iterator yields) is always a valid Value of the
// element type; a lookup by the j-th key finds it when that key equals itself
func entryValFacts(u *Unit, v string) {
	u.fn("rv_entryval", []string{"RV", "Int"}, "RV")
	u.fn("rv_mapval", []string{"RV", "Iface"}, "RV")
	ck := "entryval:" + v
	if u.frameDone[ck] {
		return
	}
	u.frameDone[ck] = true
	u.fact(fmt.Sprintf("(forall ((qi Int)) (! (and (rv_valid (rv_entryval %s qi)) (= (rv_type (rv_entryval %s qi)) (elemT (rv_type %s)))) :pattern ((rv_entryval %s qi))))", v, v, v, v))
	u.fact(fmt.Sprintf("(forall ((qi Int)) (! (=> %s (= (rv_mapval %s (rv_iface (rv_key %s qi))) (rv_entryval %s qi))) :pattern ((rv_key %s qi))))", selfEqualKind(fmt.Sprintf("(kind (ityp (rv_iface (rv_key %s qi))))", v)), v, v, v, v))
}
