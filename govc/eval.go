package main

import (
	"fmt"
	"go/token"
	"go/types"
	"sort"
	"strconv"
	"strings"

	"golang.org/x/tools/go/ssa"
)

// ---------------------------------------------------------------------------------------------
// Contract language: evaluation to SMT
// ---------------------------------------------------------------------------------------------

type Env struct {
	vars  map[string]*Val
	pkg   *types.Package
	depth int
	// state and environment at the entry of the loop whose invariant is being evaluated: atloop(e)
	loopPre    *State
	loopPreEnv *Env
	at         *ssa.BasicBlock // where the expression is evaluated (resolves source names defined more than once)
	cells      map[string]*Val // names of captured variables -> address of the cell (loaded on use)
}

func (e *Env) child() *Env {
	n := &Env{vars: map[string]*Val{}, pkg: e.pkg, depth: e.depth + 1, loopPre: e.loopPre, loopPreEnv: e.loopPreEnv, at: e.at, cells: e.cells}
	for k, v := range e.vars {
		n.vars[k] = v
	}
	return n
}

type evalError struct{ msg string }

func evalFail(format string, a ...any) { panic(evalError{fmt.Sprintf(format, a...)}) }

func (u *Unit) srt(v *Val) string {
	if v.Srt != "" {
		return v.Srt
	}
	if v.Ty == nil {
		evalFail("value without type")
	}
	return u.w.sortOf(v.Ty)
}

// SMT-level functions usable in contracts (declared on demand)
type smtFn struct {
	args []string
	ret  string
	goTy types.Type
}

var contractSMTFns = map[string]smtFn{
	"kind":           {[]string{"TypeTag"}, "Int", types.Typ[types.Int]},
	"named":          {[]string{"TypeTag"}, "Bool", types.Typ[types.Bool]},
	"comparable":     {[]string{"TypeTag"}, "Bool", types.Typ[types.Bool]},
	"elemT":          {[]string{"TypeTag"}, "TypeTag", nil},
	"keyT":           {[]string{"TypeTag"}, "TypeTag", nil},
	"sliceOf":        {[]string{"TypeTag"}, "TypeTag", nil},
	"convertible":    {[]string{"TypeTag", "TypeTag"}, "Bool", types.Typ[types.Bool]},
	"assignable":     {[]string{"TypeTag", "TypeTag"}, "Bool", types.Typ[types.Bool]},
	"rv_of":          {[]string{"Iface"}, "RV", nil},
	"rv_iface":       {[]string{"RV"}, "Iface", nil},
	"rv_valid":       {[]string{"RV"}, "Bool", types.Typ[types.Bool]},
	"rv_type":        {[]string{"RV"}, "TypeTag", nil},
	"rv_len":         {[]string{"RV"}, "Int", types.Typ[types.Int]},
	"rv_index":       {[]string{"RV", "Int"}, "RV", nil},
	"rv_mapval":      {[]string{"RV", "Iface"}, "RV", nil},
	"rv_key":         {[]string{"RV", "Int"}, "RV", nil},
	"rv_entryval":    {[]string{"RV", "Int"}, "RV", nil},
	"t_numin":        {[]string{"TypeTag"}, "Int", types.Typ[types.Int]},
	"t_numout":       {[]string{"TypeTag"}, "Int", types.Typ[types.Int]},
	"t_in":           {[]string{"TypeTag", "Int"}, "TypeTag", nil},
	"t_out":          {[]string{"TypeTag", "Int"}, "TypeTag", nil},
	"rv_convert":     {[]string{"RV", "TypeTag"}, "RV", nil},
	"rv_indirect":    {[]string{"RV"}, "RV", nil},
	"rv_field":       {[]string{"RV", "Str"}, "RV", nil},
	"rv_method":      {[]string{"RV", "Str"}, "RV", nil},
	"rv_isnil":       {[]string{"RV"}, "Bool", types.Typ[types.Bool]},
	"rv_elem":        {[]string{"RV"}, "RV", nil},
	"rv_iskey":       {[]string{"RV", "RV"}, "Bool", types.Typ[types.Bool]},
	"birth":          {[]string{"Ref"}, "Int", types.Typ[types.Int]},
	"strlen":         {[]string{"Str"}, "Int", types.Typ[types.Int]},
	"strcat":         {[]string{"Str", "Str"}, "Str", types.Typ[types.String]},
	"re_match":       {[]string{"Ref", "Str"}, "Bool", types.Typ[types.Bool]},
	"parseint_ok":    {[]string{"Str"}, "Bool", types.Typ[types.Bool]},
	"parseint_val":   {[]string{"Str"}, "Int", types.Typ[types.Int64]},
	"parsefloat_ok":  {[]string{"Str"}, "Bool", types.Typ[types.Bool]},
	"parsefloat_val": {[]string{"Str"}, F64, types.Typ[types.Float64]},
	"str_tolower":    {[]string{"Str"}, "Str", types.Typ[types.String]},
	"str_title":      {[]string{"Str"}, "Str", types.Typ[types.String]},
}

var kindNames = map[string]int{"Invalid": 0, "Bool": 1, "Int": 2, "Int8": 3, "Int16": 4, "Int32": 5, "Int64": 6, "Uint": 7, "Uint8": 8, "Uint16": 9,
	"Uint32": 10, "Uint64": 11, "Uintptr": 12, "Float32": 13, "Float64": 14, "Complex64": 15, "Complex128": 16, "Array": 17, "Chan": 18, "Func": 19,
	"Interface": 20, "Map": 21, "Pointer": 22, "Slice": 23, "String": 24, "Struct": 25, "UnsafePointer": 26}

var anyType = types.Universe.Lookup("any").Type()

func (fr *Frame) evalBool(e *Expr, env *Env, st *State, old *State) string {
	v := fr.eval(e, env, st, old)
	if fr.u.srt(v) != "Bool" {
		evalFail("boolean expected in %q", e.src)
	}
	return v.T
}

func sv(t, srt string) *Val { return &Val{K: vTerm, T: t, Srt: srt} }

func (fr *Frame) eval(e *Expr, env *Env, st *State, old *State) *Val {
	u := fr.u
	w := u.w
	switch e.op {
	case "int":
		if strings.ContainsAny(e.name, ".e") && !strings.HasPrefix(e.name, "0x") {
			f, err := strconv.ParseFloat(e.name, 64)
			if err != nil {
				evalFail("bad number %s", e.name)
			}
			return term(f64Lit(f), types.Typ[types.Float64])
		}
		n, err := strconv.ParseInt(e.name, 0, 64)
		if err != nil {
			un, err2 := strconv.ParseUint(e.name, 0, 64)
			if err2 != nil {
				evalFail("bad number %s", e.name)
			}
			return term(uintLit(un), types.Typ[types.UntypedInt])
		}
		return term(intLit(n), types.Typ[types.UntypedInt])
	case "str":
		return term(w.strLit(e.name), types.Typ[types.String])
	case "bool":
		return term(e.name, types.Typ[types.Bool])
	case "nil":
		return &Val{K: vTerm, T: "nil", Ty: types.Typ[types.UntypedNil]}
	case "ident":
		if v, ok := env.vars[e.name]; ok {
			if v.K == vAddr {
				return fr.materialize(v, st)
			}
			if v.T == "$visited" {
				return sv(fr.u.ghostOf(st, v.Heap), v.Srt)
			}
			return v
		}
		// `for it.Next()` over a reflect map iterator: idx is the position of the last entry handled (-1 before the
		// first), read from the iterator's ghost position in the state at hand
		if e.name == "idx" && env.at != nil {
			if itv := fr.mapIterOfLoop(env.at); itv != nil {
				if iv, ok := fr.vals[itv]; ok && iv.K == vTerm {
					u.ghostSort["miter_pos"] = "(Array Ref Int)"
					return term(fmt.Sprintf("(select %s %s)", u.ghostOf(st, "miter_pos"), iv.T), types.Typ[types.Int])
				}
			}
		}
		cell := env.cells[e.name]
		if cell == nil && env.cells == nil {
			cell = fr.ctCells[e.name]
		}
		if cell != nil && cell.K == vTerm {
			a := u.addrOfPtr(cell)
			el := cell.Ty.Underlying().(*types.Pointer).Elem()
			return fr.loadedOld(term(u.loadAddr(st, a), el), st)
		}
		if sv0, ok := fr.nameVals[e.name]; ok {
			if v, ok := fr.vals[sv0]; ok && (v.K == vTerm || v.K == vFunc) {
				return v
			}
		}
		cands := fr.nameCands[e.name]
		if len(cands) < 2 {
			if rc := fr.renamedCands(e.name); len(rc) > 1 {
				cands = rc
			}
		}
		if len(cands) > 1 && env.at != nil {
			// several definitions: the innermost one that dominates the place of evaluation
			var best ssa.Value
			for _, c := range cands {
				in, ok := c.(ssa.Instruction)
				if !ok || in.Block() == nil || !in.Block().Dominates(env.at) || in.Block() == env.at {
					continue
				}
				if best == nil || best.(ssa.Instruction).Block().Dominates(in.Block()) {
					best = c
				}
			}
			if best != nil {
				if v, ok := fr.vals[best]; ok && (v.K == vTerm || v.K == vFunc) {
					return v
				}
			}
		}
		if av, ok := fr.nameAddrs[e.name]; ok {
			if pv, ok := fr.vals[av]; ok && pv.K == vTerm {
				a := u.addrOfPtr(pv)
				el := pv.Ty.Underlying().(*types.Pointer).Elem()
				return term(u.loadAddr(st, a), el)
			}
		}
		// a counting loop (`for i := 0; i < n; i++`) that has become a range loop: the old counter at the loop head is
		// the number of completed iterations, i.e. the range index + 1
		if env.at != nil && fr.loopBody[env.at] != nil {
			if base := fr.u.eng.baseLocals[fnKey(fr.fn)]; base != nil && strings.HasPrefix(base[e.name], "val|*ssa.Phi|int|") {
				if _, still := fr.renamedValue(e.name); still == "" || true {
					if idx, ok := env.vars["idx"]; ok {
						if rv, _ := fr.renamedValue(e.name); rv == nil || fr.vals[rv] == nil {
							u.note("loop counter " + e.name + " of " + fnKey(fr.fn) + " no longer exists; the loop is a range loop now: read as range index + 1")
							return term(fmt.Sprintf("(+ %s 1)", idx.T), types.Typ[types.Int])
						}
					}
				}
			}
		}
		// a local that was renamed since the claims were recorded: found through its structural locator
		if rv, kind := fr.renamedValue(e.name); rv != nil {
			if v, ok := fr.vals[rv]; ok && v.K == vTerm {
				u.note("local " + e.name + " of " + fnKey(fr.fn) + " no longer exists under that name; resolved structurally to " + rv.Name())
				switch kind {
				case "val":
					return v
				case "addr", "cell":
					a := u.addrOfPtr(v)
					el := v.Ty.Underlying().(*types.Pointer).Elem()
					return fr.loadedOld(term(u.loadAddr(st, a), el), st)
				}
			}
		}
		if k, ok := kindNames[strings.TrimPrefix(e.name, "Kind")]; ok && strings.HasPrefix(e.name, "Kind") {
			return term(fmt.Sprintf("%d", k), types.Typ[types.Int])
		}
		// package-level constant or variable
		if env.pkg != nil {
			if obj := env.pkg.Scope().Lookup(e.name); obj != nil {
				switch o := obj.(type) {
				case *types.Const:
					return u.constVal(ssa.NewConst(o.Val(), o.Type()))
				case *types.Var:
					if g := u.eng.globalFor(o); g != nil {
						a := fr.val(g)
						t := u.loadAddr(st, a)
						return term(t, o.Type())
					}
				}
			}
		}
		evalFail("unknown identifier %q", e.name)
	case "un":
		x := fr.eval(e.args[0], env, st, old)
		switch e.name {
		case "!":
			return term(not(x.T), types.Typ[types.Bool])
		case "-":
			if x.Ty != nil && isFloat(x.Ty) {
				return term(fmt.Sprintf("(fp.neg %s)", x.T), x.Ty)
			}
			return term(fmt.Sprintf("(- %s)", x.T), x.Ty)
		case "*":
			pt, ok := x.Ty.Underlying().(*types.Pointer)
			if !ok {
				evalFail("dereference of non-pointer in %q", e.src)
			}
			a := u.addrOfPtr(x)
			return fr.loadedOld(term(u.loadAddr(st, a), pt.Elem()), st)
		}
	case "old":
		return fr.eval(e.args[0], env, old, old)
	case "cond":
		c := fr.evalBool(e.args[0], env, st, old)
		a := fr.eval(e.args[1], env, st, old)
		b := fr.eval(e.args[2], env, st, old)
		a, b = fr.unify(a, b)
		r := *a
		r.T = ite(c, a.T, b.T)
		return &r
	case "quant":
		ne := env.child()
		var binds []string
		var guards []string
		for _, qv := range e.vars {
			ty, srt := u.eng.resolveType(env.pkg, qv.typ)
			if srt == "" {
				srt = w.sortOf(ty)
			}
			nm := quote("q:" + qv.name)
			u.qsorts[nm] = srt
			binds = append(binds, fmt.Sprintf("(%s %s)", nm, srt))
			v := &Val{K: vTerm, T: nm, Ty: ty, Srt: srt}
			ne.vars[qv.name] = v
			if ty != nil {
				if b, ok := ty.Underlying().(*types.Basic); ok && b.Info()&types.IsInteger != 0 && b.Kind() != types.Int && b.Kind() != types.UntypedInt {
					lo, hi := intRange(b)
					guards = append(guards, fmt.Sprintf("(<= %s %s)", lo, nm), fmt.Sprintf("(<= %s %s)", nm, hi))
				}
			}
		}
		body := fr.evalBool(e.args[0], ne, st, old)
		if e.name == "forall" {
			return term(fmt.Sprintf("(forall (%s) %s)", strings.Join(binds, " "), implies(and(guards...), body)), types.Typ[types.Bool])
		}
		return term(fmt.Sprintf("(exists (%s) %s)", strings.Join(binds, " "), and(append(guards, body)...)), types.Typ[types.Bool])
	case "bin":
		return fr.evalBin(e, env, st, old)
	case "field":
		if b := e.args[0]; b.op == "ident" && env.pkg != nil {
			// pkg.Var : a package-level variable of an imported package
			if _, isVar := env.vars[b.name]; !isVar {
				for _, imp := range env.pkg.Imports() {
					if imp.Name() != b.name {
						continue
					}
					if sp := u.eng.prog.Package(imp); sp != nil {
						if g, ok := sp.Members[e.name].(*ssa.Global); ok {
							a := fr.val(g)
							return term(u.loadAddr(st, a), g.Type().(*types.Pointer).Elem())
						}
					}
				}
			}
		}
		x := fr.eval(e.args[0], env, st, old)
		return fr.evalField(x, e.name, st, e)
	case "index":
		x := fr.eval(e.args[0], env, st, old)
		i := fr.eval(e.args[1], env, st, old)
		if x.Ty == nil {
			if strings.HasPrefix(x.Srt, "(Array") {
				return sv(fmt.Sprintf("(select %s %s)", x.T, i.T), arrayElemSort(x.Srt))
			}
			evalFail("index of untyped value in %q", e.src)
		}
		switch xt := x.Ty.Underlying().(type) {
		case *types.Slice:
			return fr.loadedOld(term(u.sliceElem(st, xt.Elem(), x.T, i.T), xt.Elem()), st)
		case *types.Map:
			kt := fr.coerce(i, xt.Key(), st)
			return fr.loadedOld(term(fmt.Sprintf("(select %s %s)", u.mapVal(st, xt, x.T), kt), xt.Elem()), st)
		case *types.Basic:
			w.declFun("strbyte", []string{"Str", "Int"}, "Int")
			return term(fmt.Sprintf("(strbyte %s %s)", x.T, i.T), types.Typ[types.Uint8])
		}
		evalFail("cannot index %v", x.Ty)
	case "assert":
		x := fr.eval(e.args[0], env, st, old)
		ty, _ := u.eng.resolveType(env.pkg, e.typ)
		if ty == nil {
			evalFail("unknown type %s", e.typ)
		}
		if isIface(ty) {
			return term(x.T, ty)
		}
		bx, ub := w.boxFn(w.sortOf(ty))
		if !strings.Contains(x.T, "|q:") {
			u.fact(implies(eq(fmt.Sprintf("(ityp %s)", x.T), w.tag(ty)), eq(fmt.Sprintf("(%s (%s (ival %s)))", bx, ub, x.T), fmt.Sprintf("(ival %s)", x.T))))
		}
		return term(fmt.Sprintf("(%s (ival %s))", ub, x.T), ty)
	case "call":
		return fr.evalCall(e, env, st, old)
	}
	evalFail("cannot evaluate %q (%s)", e.src, e.op)
	return nil
}

func arrayElemSort(s string) string {
	// "(Array K V)" -> V  (K is a simple sort or a parenthesised one)
	inner := strings.TrimSuffix(strings.TrimPrefix(s, "(Array "), ")")
	d := 0
	inbar := false
	for i, c := range inner {
		if c == '|' {
			inbar = !inbar
		}
		if inbar {
			continue
		}
		if c == '(' {
			d++
		}
		if c == ')' {
			d--
		}
		if c == ' ' && d == 0 {
			return inner[i+1:]
		}
	}
	return "Bool"
}

// unify two values for comparison (nil literal, untyped ints, concrete vs interface)
func (fr *Frame) unify(a, b *Val) (*Val, *Val) {
	u := fr.u
	isNil := func(v *Val) bool {
		bb, ok := v.Ty.(*types.Basic)
		return v.Ty != nil && ok && bb.Kind() == types.UntypedNil
	}
	if isNil(a) && !isNil(b) {
		b2, a2 := fr.unify(b, a)
		return a2, b2
	}
	if isNil(b) && !isNil(a) {
		srt := u.srt(a)
		switch srt {
		case "Iface":
			return a, &Val{K: vTerm, T: "nilIface", Ty: a.Ty, Srt: "Iface"}
		case "Slice":
			return sv(fmt.Sprintf("(sdata %s)", a.T), "Ref"), sv("nil", "Ref")
		case "Ref":
			return a, sv("nil", "Ref")
		}
		evalFail("nil compared with %s", srt)
	}
	// untyped int against float
	if a.Ty != nil && b.Ty != nil {
		if isFloat(a.Ty) && isInteger(b.Ty) {
			return a, term(u.intToFloat(b.T, nil, a.Ty.Underlying().(*types.Basic)), a.Ty)
		}
		if isFloat(b.Ty) && isInteger(a.Ty) {
			return term(u.intToFloat(a.T, nil, b.Ty.Underlying().(*types.Basic)), b.Ty), b
		}
	}
	sa, sb := u.srt(a), u.srt(b)
	if sa == "Iface" && sb != "Iface" && b.Ty != nil {
		return a, fr.makeIface(b, b.Ty, anyType, nil)
	}
	if sb == "Iface" && sa != "Iface" && a.Ty != nil {
		return fr.makeIface(a, a.Ty, anyType, nil), b
	}
	return a, b
}

func (fr *Frame) coerce(v *Val, to types.Type, st *State) string {
	u := fr.u
	if u.w.sortOf(to) == "Iface" && u.srt(v) != "Iface" && v.Ty != nil {
		return fr.makeIface(v, v.Ty, to, st).T
	}
	return v.T
}

func (fr *Frame) evalBin(e *Expr, env *Env, st *State, old *State) *Val {
	u := fr.u
	B := types.Typ[types.Bool]
	switch e.name {
	case "==>":
		return term(implies(fr.evalBool(e.args[0], env, st, old), fr.evalBool(e.args[1], env, st, old)), B)
	case "<==>":
		return term(eq(fr.evalBool(e.args[0], env, st, old), fr.evalBool(e.args[1], env, st, old)), B)
	case "&&":
		return term(and(fr.evalBool(e.args[0], env, st, old), fr.evalBool(e.args[1], env, st, old)), B)
	case "||":
		return term(or(fr.evalBool(e.args[0], env, st, old), fr.evalBool(e.args[1], env, st, old)), B)
	}
	a := fr.eval(e.args[0], env, st, old)
	b := fr.eval(e.args[1], env, st, old)
	switch e.name {
	case "in":
		if b.Ty != nil {
			if mt, ok := b.Ty.Underlying().(*types.Map); ok {
				k := fr.coerce(a, mt.Key(), st)
				// `k in old(m)` means membership in the old contents of the map, not only the old map reference
				dst := st
				if rhs := e.args[1]; rhs.op == "call" && rhs.name == "old" {
					dst = old
				}
				return term(and(fmt.Sprintf("(distinct %s nil)", b.T), fmt.Sprintf("(select %s %s)", u.mapDom(dst, mt, b.T), k)), B)
			}
		}
		if strings.HasPrefix(u.srt(b), "(Array") {
			return term(fmt.Sprintf("(select %s %s)", b.T, a.T), B)
		}
		evalFail("'in' needs a map or a set: %q", e.src)
	case "==", "!=":
		a, b = fr.unify(a, b)
		var t string
		if a.Ty != nil && isFloat(a.Ty) {
			t = fmt.Sprintf("(fp.eq %s %s)", a.T, b.T)
		} else if u.srt(a) == "Iface" && b.T == "nilIface" {
			t = fmt.Sprintf("(= (ityp %s) T_nil)", a.T)
		} else {
			if u.srt(a) != u.srt(b) {
				evalFail("sort mismatch in %q: %s vs %s", e.src, u.srt(a), u.srt(b))
			}
			t = eq(a.T, b.T)
		}
		if e.name == "!=" {
			t = not(t)
		}
		return term(t, B)
	case "<", "<=", ">", ">=":
		a, b = fr.unify(a, b)
		if a.Ty != nil && isFloat(a.Ty) {
			op := map[string]string{"<": "fp.lt", "<=": "fp.leq", ">": "fp.gt", ">=": "fp.geq"}[e.name]
			return term(fmt.Sprintf("(%s %s %s)", op, a.T, b.T), B)
		}
		return term(fmt.Sprintf("(%s %s %s)", e.name, a.T, b.T), B)
	case "+", "-", "*", "/", "%":
		a, b = fr.unify(a, b)
		if a.Ty != nil && isFloat(a.Ty) {
			op := map[string]string{"+": "fp.add", "-": "fp.sub", "*": "fp.mul", "/": "fp.div"}[e.name]
			return term(fmt.Sprintf("(%s RNE %s %s)", op, a.T, b.T), a.Ty)
		}
		if a.Ty != nil && isString(a.Ty) && e.name == "+" {
			u.w.declFun("strcat", []string{"Str", "Str"}, "Str")
			return term(fmt.Sprintf("(strcat %s %s)", a.T, b.T), a.Ty)
		}
		op := e.name
		if op == "/" {
			op = "div"
		}
		if op == "%" {
			op = "mod"
		}
		ty := a.Ty
		if bb, ok := ty.(*types.Basic); ok && bb.Kind() == types.UntypedInt {
			ty = b.Ty
		}
		return term(fmt.Sprintf("(%s %s %s)", op, a.T, b.T), ty)
	}
	evalFail("operator %s", e.name)
	return nil
}

func (fr *Frame) evalField(x *Val, name string, st *State, e *Expr) *Val {
	u := fr.u
	if x.Ty == nil {
		evalFail("field %s of untyped value in %q", name, e.src)
	}
	// slice header pseudo fields
	t := x.Ty
	obj, path, _ := types.LookupFieldOrMethod(t, true, u.eng.anyPkg(t), name)
	fv, ok := obj.(*types.Var)
	if !ok || !fv.IsField() {
		evalFail("no field %s in %v (%q)", name, t, e.src)
	}
	cur := x
	for _, idx := range path {
		ct := cur.Ty
		var viaPtr *Val
		if pt, ok := ct.Underlying().(*types.Pointer); ok {
			a := u.addrOfPtr(cur)
			viaPtr = a
			cur = term(u.loadAddr(st, a), pt.Elem())
			ct = pt.Elem()
		}
		stt, ok := ct.Underlying().(*types.Struct)
		if !ok {
			evalFail("field path through non-struct %v", ct)
		}
		cur = term(u.w.fieldSel(ct, idx, cur.T), stt.Field(idx).Type())
		if viaPtr != nil && !strings.Contains(viaPtr.Ref, "|q:") {
			na := *viaPtr
			na.Sels = []sel{{field: idx, cont: ct}}
			u.closedPre(&na, stt.Field(idx).Type())
		}
	}
	return fr.loadedOld(cur, st)
}

func (fr *Frame) evalCall(e *Expr, env *Env, st *State, old *State) *Val {
	u := fr.u
	w := u.w
	arg := func(i int) *Val {
		if i >= len(e.args) {
			evalFail("%s: missing argument", e.name)
		}
		return fr.eval(e.args[i], env, st, old)
	}
	B := types.Typ[types.Bool]
	switch e.name {
	case "old":
		return fr.eval(e.args[0], env, old, old)
	case "atloop":
		// atloop(e): value of e when the loop (whose invariant this is) was entered
		if env.loopPre == nil || len(e.args) != 1 {
			evalFail("atloop(e) is only meaningful in a loop invariant")
		}
		return fr.eval(e.args[0], env.loopPreEnv, env.loopPre, old)
	case "signalled":
		// signalled(p): Signal/Broadcast has been called on the condition variable inside the struct p points to
		x := arg(0)
		u.ghostSort["signalled"] = "(Array Ref Bool)"
		if u.srt(x) != "Ref" && x.Ref != "" {
			// the variable of a type invariant: the cell's own address
			return term(fmt.Sprintf("(select %s %s)", u.ghostOf(st, "signalled"), x.Ref), B)
		}
		return term(fmt.Sprintf("(select %s %s)", u.ghostOf(st, "signalled"), fr.refOf(x)), B)
	case "locked":
		// locked(p): the monitor declared for the struct p points to is held
		x := arg(0)
		pt, ok := x.Ty.Underlying().(*types.Pointer)
		if !ok {
			evalFail("locked(p) needs a pointer to a struct with a declared monitor")
		}
		if n, ok := pt.Elem().(*types.Named); ok && n.Obj().Pkg() != nil {
			key := n.Obj().Pkg().Name() + "." + n.Obj().Name()
			for _, m := range u.eng.contracts.monitors {
				if m.TypeName == key {
					hk := heldKey(m, x.T)
					u.ghostSort[hk] = "Bool"
					if _, ok := st.ghost[hk]; !ok {
						return term(u.ghostOf(st, hk), B)
					}
					return term(st.ghost[hk], B)
				}
			}
		}
		evalFail("locked: no monitor declared for %v", pt.Elem())
	case "strictdec":
		// strictdec(x): the CBOR decoder (or decoding mode) x rejects messages with unknown fields
		x := arg(0)
		if _, isPtr := x.Ty.Underlying().(*types.Pointer); isPtr {
			return term(app(u.fn("cbor_strictdec", []string{"Ref"}, "Bool"), x.T), B)
		}
		return term(app(u.fn("cbor_strictmode", []string{"Iface"}, "Bool"), fr.asTerm(x, st)), B)
	case "iterpos":
		// iterpos(it): position of a *reflect.MapIter (-1 before the first Next)
		x := arg(0)
		u.ghostSort["miter_pos"] = "(Array Ref Int)"
		return term(fmt.Sprintf("(select %s %s)", u.ghostOf(st, "miter_pos"), x.T), types.Typ[types.Int])
	case "closed":
		// closed(ch): the channel has been closed
		x := arg(0)
		u.ghostSort["closed"] = "(Array Ref Bool)"
		return term(fmt.Sprintf("(select %s %s)", u.ghostOf(st, "closed"), x.T), B)
	case "sends":
		// sends(ch): number of sends on the channel so far
		x := arg(0)
		u.ghostSort["sends"] = "(Array Ref Int)"
		return term(fmt.Sprintf("(select %s %s)", u.ghostOf(st, "sends"), x.T), types.Typ[types.Int])
	case "lastsent":
		// lastsent(ch): the value of the last send on the channel
		x := arg(0)
		ct, ok := x.Ty.Underlying().(*types.Chan)
		if !ok {
			evalFail("lastsent needs a channel")
		}
		srt := w.sortOf(ct.Elem())
		lk := "lastsent:" + sortShort(srt)
		u.ghostSort[lk] = fmt.Sprintf("(Array Ref %s)", srt)
		return term(fmt.Sprintf("(select %s %s)", u.ghostOf(st, lk), x.T), ct.Elem())
	case "written":
		// written(w): ghost text written so far to the writer w through fmt.Fprintf / fmt.Fprint
		x := arg(0)
		u.ghostSort["out"] = "(Array Ref Str)"
		return term(fmt.Sprintf("(select %s %s)", u.ghostOf(st, "out"), fr.refOf(x)), types.Typ[types.String])
	case "sortedkey":
		// sortedkey(m, i): the i-th smallest key of the map m (defined by the library contract of sort.Strings)
		m, i := arg(0), arg(1)
		mt, ok := m.Ty.Underlying().(*types.Map)
		if !ok {
			evalFail("sortedkey(m, i) needs a map")
		}
		return term(app(u.sortedKeyFn(mt), m.T, i.T), mt.Key())
	case "len":
		x := arg(0)
		switch xt := x.Ty.Underlying().(type) {
		case *types.Slice:
			return term(fmt.Sprintf("(slen %s)", x.T), types.Typ[types.Int])
		case *types.Basic:
			return term(fmt.Sprintf("(strlen %s)", x.T), types.Typ[types.Int])
		case *types.Map:
			return term(ite(fmt.Sprintf("(= %s nil)", x.T), "0", u.mapLen(st, xt, x.T)), types.Typ[types.Int])
		}
		evalFail("len of %v", x.Ty)
	case "typeOf":
		x := arg(0)
		if u.srt(x) != "Iface" {
			if x.Ty != nil {
				return sv(w.tag(x.Ty), "TypeTag")
			}
			evalFail("typeOf needs an interface value")
		}
		return sv(fmt.Sprintf("(ityp %s)", x.T), "TypeTag")
	case "kindOf":
		x := arg(0)
		if u.srt(x) != "Iface" {
			evalFail("kindOf needs an interface value")
		}
		return term(fmt.Sprintf("(kind (ityp %s))", x.T), types.Typ[types.Int])
	case "type":
		ty, _ := u.eng.resolveType(env.pkg, e.typ)
		if ty == nil {
			evalFail("unknown type %q", e.typ)
		}
		return sv(w.tag(ty), "TypeTag")
	case "zero":
		ty, _ := u.eng.resolveType(env.pkg, e.typ)
		if ty == nil {
			evalFail("unknown type %q", e.typ)
		}
		return term(w.zero(ty), ty)
	case "fresh":
		x := arg(0)
		base := u.entryNow
		if fr.freshBase != "" {
			base = fr.freshBase // in a callee's postcondition: allocated during that call
		}
		return term(fmt.Sprintf("(>= (birth %s) %s)", fr.refOf(x), base), B)
	case "same":
		a, b := fr.unify(arg(0), arg(1))
		if u.srt(a) != u.srt(b) {
			evalFail("same: sort mismatch %s vs %s", u.srt(a), u.srt(b))
		}
		return term(eq(a.T, b.T), B)
	case "ceOf":
		// the first *ConstraintError in the unwrap chain of an error (what errors.As finds), nil if none
		x := arg(0)
		cet := u.eng.ceType()
		if cet == nil {
			evalFail("ConstraintError type not found")
		}
		okf := u.fn("as_ce_ok", []string{"Iface"}, "Bool")
		valf := u.fn("as_ce_val", []string{"Iface"}, "Ref")
		_, ub := w.boxFn("Ref")
		ck := "asce:" + x.T
		if !u.frameDone[ck] && !strings.Contains(x.T, "|q:") {
			u.frameDone[ck] = true
			u.fact(implies(fmt.Sprintf("(= (ityp %s) T_nil)", x.T), not(app(okf, x.T))))
			u.fact(implies(fmt.Sprintf("(= (ityp %s) %s)", x.T, u.ceTag()), and(app(okf, x.T), eq(app(valf, x.T), fmt.Sprintf("(%s (ival %s))", ub, x.T)))))
			u.fact(implies(app(okf, x.T), fmt.Sprintf("(distinct %s nil)", app(valf, x.T))))
		}
		return term(ite(app(okf, x.T), app(valf, x.T), "nil"), types.NewPointer(cet))
	case "sprintf0", "sprintf1", "sprintf2", "sprintf3":
		n := int(e.name[7] - '0')
		if len(e.args) != n+1 {
			evalFail("%s takes %d arguments", e.name, n+1)
		}
		sorts := []string{"Str"}
		ts := []string{arg(0).T}
		for i := 1; i <= n; i++ {
			a := arg(i)
			if u.srt(a) != "Iface" {
				a = fr.makeIface(a, a.Ty, anyType, st)
			}
			sorts = append(sorts, "Iface")
			ts = append(ts, a.T)
		}
		w.declFun(e.name, sorts, "Str")
		return term(app(e.name, ts...), types.Typ[types.String])
	case "allocated":
		// allocated(x): the object x refers to exists in the state where the expression is evaluated (so anything
		// allocated later is a different object)
		x := arg(0)
		return term(fmt.Sprintf("(< (birth %s) %s)", fr.refOf(x), st.now), B)
	case "preexisting":
		x := arg(0)
		return term(fmt.Sprintf("(< (birth %s) %s)", fr.refOf(x), u.entryNow), B)
	case "rtag":
		// the type identity held by a reflect.Type value
		x := arg(0)
		if u.srt(x) != "Iface" {
			evalFail("rtag needs a reflect.Type value")
		}
		return sv(u.tagOfRtype(x.T), "TypeTag")
	case "strings_Contains", "strings_HasPrefix", "strings_HasSuffix":
		nm := strings.Replace(e.name, "_", ".", 1)
		fnm := quote("fn:" + nm)
		w.declFun(fnm, []string{"Str", "Str"}, "Bool")
		return term(app(fnm, arg(0).T, arg(1).T), B)
	case "strings_TrimSpace", "strings_ToUpper":
		nm := strings.Replace(e.name, "_", ".", 1)
		fnm := quote("fn:" + nm)
		w.declFun(fnm, []string{"Str"}, "Str")
		return term(app(fnm, arg(0).T), types.Typ[types.String])
	case "refof":
		return sv(fr.refOf(arg(0)), "Ref")
	case "any":
		x := arg(0)
		if u.srt(x) == "Iface" {
			return x
		}
		if u.srt(x) == "RV" && x.Ty == nil {
			rt := u.eng.reflectValueType()
			if rt == nil {
				evalFail("reflect.Value type not found")
			}
			nx := *x
			nx.Ty = rt
			return fr.makeIface(&nx, rt, anyType, st)
		}
		return fr.makeIface(x, x.Ty, anyType, st)
	case "implements":
		// implements(x, I): x is non-nil and its dynamic type implements interface I
		x := arg(0)
		if len(e.args) != 2 || e.args[1].op != "ident" {
			evalFail("implements(x, InterfaceName)")
		}
		ity, _ := u.eng.resolveType(env.pkg, e.args[1].name)
		if ity == nil || !isIface(ity) {
			evalFail("implements: %s is not an interface", e.args[1].name)
		}
		return term(and(fmt.Sprintf("(distinct (ityp %s) T_nil)", x.T), fmt.Sprintf("(%s (ityp %s))", u.implementsFn(ity), x.T)), B)
	case "inv":
		// number of invocations of a function value
		x := arg(0)
		u.ghostSort["inv"] = "(Array Ref Int)"
		return term(fmt.Sprintf("(select %s %s)", u.ghostOf(st, "inv"), x.T), types.Typ[types.Int])
	case "ghost":
		// ghost("name") : current value of a ghost variable (Int)
		if len(e.args) == 1 && e.args[0].op == "str" {
			k := e.args[0].name
			if _, ok := u.ghostSort[k]; !ok {
				u.ghostSort[k] = "Int"
			}
			return term(u.ghostOf(st, k), types.Typ[types.Int])
		}
	case "lastarg", "lastres":
		// lastarg(f, i, zero(T)) : i-th argument of the last call of function value f
		f := arg(0)
		if len(e.args) != 3 || e.args[1].op != "int" {
			evalFail("%s(f, i, zero(T))", e.name)
		}
		z := arg(2)
		srt := u.srt(z)
		gk := fmt.Sprintf("%s%s:%s", e.name, e.args[1].name, sortShort(srt))
		u.ghostSort[gk] = fmt.Sprintf("(Array Ref %s)", srt)
		r := *z
		r.T = fmt.Sprintf("(select %s %s)", u.ghostOf(st, gk), f.T)
		return &r
	}
	// conversions by type name
	if len(e.args) == 1 {
		if ty, _ := u.eng.resolveTypeQuiet(env.pkg, e.name); ty != nil {
			x := arg(0)
			if x.Ty != nil {
				if bb, ok := x.Ty.(*types.Basic); ok && bb.Kind() == types.UntypedInt {
					if isFloat(ty) {
						return term(u.intToFloat(x.T, nil, ty.Underlying().(*types.Basic)), ty)
					}
					return term(x.T, ty)
				}
				return fr.convert(x, x.Ty, ty, st)
			}
		}
	}
	// SMT-level functions
	if f, ok := contractSMTFns[e.name]; ok {
		w.declFun(e.name, f.args, f.ret)
		var as []string
		for i := range f.args {
			a := arg(i)
			if u.srt(a) != f.args[i] {
				evalFail("%s: argument %d has sort %s, want %s", e.name, i, u.srt(a), f.args[i])
			}
			as = append(as, a.T)
		}
		return &Val{K: vTerm, T: fmt.Sprintf("(%s %s)", e.name, strings.Join(as, " ")), Ty: f.goTy, Srt: f.ret}
	}
	// spec functions
	if sf, ok := u.eng.contracts.specs[e.name]; ok {
		u.usedSpecs[e.name] = true
		if len(e.args) != len(sf.params) {
			evalFail("%s: wrong number of arguments", e.name)
		}
		pkg := u.eng.pkgByName(sf.pkg)
		if sf.abstract {
			var as, sorts []string
			for i, p := range sf.params {
				a := arg(i)
				pt, psrt := u.eng.resolveType(pkg, p.typ)
				if psrt == "" {
					psrt = w.sortOf(pt)
				}
				at := a.T
				if psrt == "Iface" && u.srt(a) != "Iface" && a.Ty != nil {
					at = fr.makeIface(a, a.Ty, anyType, st).T
				} else if u.srt(a) != psrt {
					a2, _ := fr.unify(a, &Val{K: vTerm, Ty: pt, Srt: psrt, T: "?"})
					at = a2.T
					if u.srt(a2) != psrt {
						evalFail("%s: argument %d has sort %s, want %s", e.name, i, u.srt(a), psrt)
					}
				}
				as = append(as, at)
				sorts = append(sorts, psrt)
			}
			rt, rs := u.eng.resolveType(pkg, sf.ret)
			if rs == "" {
				rs = w.sortOf(rt)
			}
			fn := quote("spec:" + sf.name)
			w.declFun(fn, sorts, rs)
			if len(as) == 0 {
				return &Val{K: vTerm, T: fn, Ty: rt, Srt: rs}
			}
			return &Val{K: vTerm, T: fmt.Sprintf("(%s %s)", fn, strings.Join(as, " ")), Ty: rt, Srt: rs}
		}
		if env.depth > 12 {
			evalFail("spec functions nested too deeply (recursion?) at %s", e.name)
		}
		ne := &Env{vars: map[string]*Val{}, pkg: pkg, depth: env.depth + 1}
		for i, p := range sf.params {
			a := arg(i)
			pt, psrt := u.eng.resolveType(pkg, p.typ)
			if pt != nil && u.w.sortOf(pt) == "Iface" && u.srt(a) != "Iface" && a.Ty != nil {
				a = fr.makeIface(a, a.Ty, pt, st)
			} else if pt != nil {
				if bb, ok := a.Ty.(*types.Basic); ok && (bb.Kind() == types.UntypedInt || bb.Kind() == types.UntypedNil) {
					if bb.Kind() == types.UntypedNil {
						a = term(u.w.zero(pt), pt)
					} else {
						a = term(a.T, pt)
					}
				} else {
					na := *a
					na.Ty = pt
					a = &na
				}
			}
			_ = psrt
			ne.vars[p.name] = a
		}
		var outerLog map[string]string
		if sf.opaque {
			outerLog = u.readLog
			u.readLog = map[string]string{}
		}
		r := fr.eval(sf.body, ne, st, old)
		if sf.opaque {
			log := u.readLog
			u.readLog = outerLog
			var hs, sorts, as []string
			for k := range log {
				hs = append(hs, k)
			}
			sortStrings(hs)
			for _, p := range sf.params {
				a := ne.vars[p.name]
				as = append(as, a.T)
				sorts = append(sorts, u.srt(a))
			}
			for _, k := range hs {
				as = append(as, log[k])
				sorts = append(sorts, u.heapSort(k))
				if outerLog != nil {
					outerLog[k] = log[k]
				}
			}
			fn := quote(fmt.Sprintf("ospec:%s/%s", sf.name, strings.Join(hs, ",")))
			w.declFun(fn, sorts, u.srt(r))
			app := fmt.Sprintf("(%s %s)", fn, strings.Join(as, " "))
			if len(as) == 0 {
				app = fn
			}
			if !u.ospecDone[app] {
				u.ospecDone[app] = true
				u.fact(eq(app, r.T))
			}
			nr := *r
			nr.T = app
			r = &nr
		}
		rt, _ := u.eng.resolveType(pkg, sf.ret)
		if rt != nil && r.Ty != nil {
			if bb, ok := r.Ty.(*types.Basic); ok && bb.Kind() == types.UntypedInt {
				r = term(r.T, rt)
			}
		}
		return r
	}
	evalFail("unknown function %q", e.name)
	return nil
}

// loadedOld: references read from the heap denote objects that already exist (closed heap)
func (fr *Frame) loadedOld(v *Val, st *State) *Val {
	u := fr.u
	if v.Ty == nil || st == nil {
		return v
	}
	if strings.Contains(v.T, "|q:") {
		// a term over a quantified variable: the fact would be closed universally and then says that every
		// reference exists already, which contradicts allocation
		return v
	}
	switch v.Ty.Underlying().(type) {
	case *types.Pointer, *types.Map, *types.Chan, *types.Signature:
		u.fact(fmt.Sprintf("(< (birth %s) %s)", v.T, st.now))
	case *types.Slice:
		u.fact(fmt.Sprintf("(< (birth (sdata %s)) %s)", v.T, st.now))
	}
	return v
}

func (fr *Frame) refOf(x *Val) string {
	u := fr.u
	switch u.srt(x) {
	case "Ref":
		return x.T
	case "Slice":
		return fmt.Sprintf("(sdata %s)", x.T)
	case "Iface":
		_, ub := u.w.boxFn("Ref")
		return fmt.Sprintf("(%s (ival %s))", ub, x.T)
	}
	evalFail("no reference in a value of sort %s", u.srt(x))
	return ""
}

// ---------------------------------------------------------------------------------------------
// loops: environment and invariants
// ---------------------------------------------------------------------------------------------

type invExpr = *Expr

func (fr *Frame) loopInvariants(ord int) []*Expr {
	if fr.u.noLoopInv {
		return nil
	}
	if fr.depth != 0 {
		// an inlined function (typically a deferred closure): its own contract may carry loop invariants
		if ct := fr.u.eng.contractFor(fr.fn); ct != nil {
			return ct.LoopInv[ord]
		}
		// a function without a contract that is inlined below a function whose contract declares invariants for more
		// loops than that function has: the loop was moved into this helper (extract-function refactoring) and its
		// invariant follows it
		for a := fr.parent; a != nil; a = a.parent {
			cta := a.contract
			if a.depth != 0 {
				cta = fr.u.eng.contractFor(a.fn)
			}
			if cta == nil {
				continue
			}
			var orphans []int
			for o := range cta.LoopInv {
				if o > len(a.loopOrd) {
					orphans = append(orphans, o)
				}
			}
			if len(orphans) == 0 {
				continue
			}
			sort.Ints(orphans)
			if ord <= len(orphans) {
				fr.u.note(fmt.Sprintf("loop %d of %s has no loop of its own in %s any more; its invariant is applied to loop %d of the inlined helper %s", orphans[ord-1], fnKey(a.fn), fnKey(a.fn), ord, fnKey(fr.fn)))
				return cta.LoopInv[orphans[ord-1]]
			}
			return nil
		}
		return nil
	}
	if fr.contract == nil {
		return nil
	}
	return fr.contract.LoopInv[ord]
}

func (fr *Frame) baseEnv() *Env {
	env := &Env{vars: map[string]*Val{}}
	if fr.fn.Pkg != nil {
		env.pkg = fr.fn.Pkg.Pkg
	} else if fr.fn.Origin() != nil && fr.fn.Origin().Pkg != nil {
		env.pkg = fr.fn.Origin().Pkg.Pkg
	}
	for k, v := range fr.ctVars {
		env.vars[k] = v
	}
	if fr.depth != 0 {
		// inlined activation: parameters and captured variables by their source names
		for _, p := range fr.fn.Params {
			if v, ok := fr.vals[p]; ok {
				env.vars[p.Name()] = v
			}
		}
		env.cells = map[string]*Val{}
		for i, fv := range fr.fn.FreeVars {
			if i < len(fr.binds) && fr.binds[i] != nil {
				if _, isPtr := fv.Type().Underlying().(*types.Pointer); isPtr && fr.binds[i].K == vTerm {
					env.cells[fv.Name()] = fr.binds[i]
				} else {
					env.vars[fv.Name()] = fr.binds[i]
				}
			}
		}
	}
	return env
}

func (fr *Frame) loopEnv(h *ssa.BasicBlock, pv func(*ssa.Phi) *Val) *Env {
	env := fr.baseEnv()
	for _, in := range h.Instrs {
		p, ok := in.(*ssa.Phi)
		if !ok {
			break
		}
		v := pv(p)
		if v == nil {
			continue
		}
		name := p.Comment
		if name == "rangeindex" {
			name = "idx"
		}
		if name != "" {
			env.vars[name] = v
		}
		env.vars["$"+p.Name()] = v
	}
	// range loops: the key variable `i` of `for i, v := range s` is the range index + 1 computed in the header; in an
	// invariant (a statement about the loop head) it stands for the number of completed iterations
	for _, in := range h.Instrs {
		bo, ok := in.(*ssa.BinOp)
		if !ok || bo.Op != token.ADD {
			continue
		}
		p, ok := bo.X.(*ssa.Phi)
		if !ok || p.Comment != "rangeindex" || p.Block() != h {
			continue
		}
		if c, ok := bo.Y.(*ssa.Const); !ok || c.Int64() != 1 {
			continue
		}
		if v := pv(p); v != nil && v.K == vTerm {
			for name, nv := range fr.nameVals {
				if nv == ssa.Value(bo) {
					env.vars[name] = term(fmt.Sprintf("(+ %s 1)", v.T), types.Typ[types.Int])
				}
			}
			for name, cs := range fr.nameCands {
				for _, c := range cs {
					if c == ssa.Value(bo) {
						if _, have := env.vars[name]; !have {
							env.vars[name] = term(fmt.Sprintf("(+ %s 1)", v.T), types.Typ[types.Int])
						}
					}
				}
			}
		}
	}
	// a range loop that has become a counting loop (`for i := 0; i < len(s); i++`): invariants written with the
	// range index `idx` read it as counter - 1
	if _, have := env.vars["idx"]; !have {
		counters := fr.countingPhis(h)
		if len(counters) == 1 {
			if v := pv(counters[0]); v != nil && v.K == vTerm {
				env.vars["idx"] = term(fmt.Sprintf("(- %s 1)", v.T), types.Typ[types.Int])
			}
		}
	}
	// names recorded for these phis when the claims were written (survives a rename of the loop variable)
	if base := fr.u.eng.baseLocals[fnKey(fr.fn)]; base != nil {
		for old := range base {
			if _, have := env.vars[old]; have {
				continue
			}
			if rv, kind := fr.renamedValue(old); rv != nil && kind == "val" {
				if p, ok := rv.(*ssa.Phi); ok && p.Block() == h {
					if v := pv(p); v != nil {
						if _, clash := fr.nameVals[old]; !clash {
							env.vars[old] = v
						}
					}
				}
			}
		}
	}
	// visited set of the iterator advanced in this loop
	body := fr.loopBody[h]
	for b := range body {
		for _, in := range b.Instrs {
			if nx, ok := in.(*ssa.Next); ok {
				if rg, ok := nx.Iter.(*ssa.Range); ok && !body[rg.Block()] {
					if iv, ok := fr.vals[rg]; ok && iv.K == vIter {
						gk := "visited:" + iv.It.id
						env.vars["visited"] = &Val{K: vTerm, T: "$visited", Srt: fr.u.ghostSort[gk], Heap: gk}
					}
				}
			}
		}
	}
	// $visitedN: visited set of the map iterator of loop N (for invariants of nested loops)
	for h2, ord := range fr.loopOrd {
		body2 := fr.loopBody[h2]
		for b := range body2 {
			for _, in := range b.Instrs {
				if nx, ok := in.(*ssa.Next); ok {
					if rg, ok := nx.Iter.(*ssa.Range); ok && !body2[rg.Block()] {
						if iv, ok := fr.vals[rg]; ok && iv.K == vIter {
							gk := "visited:" + iv.It.id
							env.vars[fmt.Sprintf("$visited%d", ord)] = &Val{K: vTerm, T: "$visited", Srt: fr.u.ghostSort[gk], Heap: gk}
						}
					}
				}
			}
		}
	}
	// result names: when the function has a single return statement whose operands are already computed
	// (an accumulator returned at the end), the contract's result names denote them inside the loop
	if fr.contract != nil && fr.depth == 0 {
		var rets []*ssa.Return
		for _, b := range fr.fn.Blocks {
			if len(b.Instrs) > 0 {
				if r, ok := b.Instrs[len(b.Instrs)-1].(*ssa.Return); ok {
					rets = append(rets, r)
				}
			}
		}
		if len(rets) == 1 {
			for i, rn := range fr.contract.Results {
				if i < len(rets[0].Results) {
					if v, ok := fr.vals[rets[0].Results[i]]; ok && v.K == vTerm {
						if _, had := env.vars[rn]; !had {
							env.vars[rn] = v
						}
					}
				}
			}
		}
	}
	// values defined before the loop that dominate the header, by source name (debug refs are not
	// built; use the names of named SSA values: parameters are already in ctVars)
	return env
}

func sortStrings(xs []string) { sort.Strings(xs) }

var _ = token.NoPos

// countingPhis returns the phis of loop header h that count iterations from 0 in steps of 1.
func (fr *Frame) countingPhis(h *ssa.BasicBlock) []*ssa.Phi {
	var counters []*ssa.Phi
	for _, in := range h.Instrs {
		p, ok := in.(*ssa.Phi)
		if !ok || !isInteger(p.Type()) || len(p.Edges) != 2 {
			continue
		}
		isCounter := false
		for i, e := range p.Edges {
			if fr.backEdge[[2]int{h.Preds[i].Index, h.Index}] {
				if bo, ok := e.(*ssa.BinOp); ok && bo.Op == token.ADD && bo.X == ssa.Value(p) {
					if c, ok := bo.Y.(*ssa.Const); ok && c.Int64() == 1 {
						isCounter = true
					}
				}
			} else if c, ok := e.(*ssa.Const); !ok || c.Int64() != 0 {
				isCounter = false
				break
			}
		}
		if isCounter {
			counters = append(counters, p)
		}
	}
	return counters
}

// mapIterOfLoop: the loop with header h is `for it.Next() { ... }` over a *reflect.MapIter that was created before
// the loop; returns the iterator value
func (fr *Frame) mapIterOfLoop(h *ssa.BasicBlock) ssa.Value {
	if h == nil {
		return nil
	}
	for _, in := range h.Instrs {
		c, ok := in.(*ssa.Call)
		if !ok {
			continue
		}
		callee := c.Call.StaticCallee()
		if callee == nil || callee.String() != "(*reflect.MapIter).Next" || len(c.Call.Args) == 0 {
			continue
		}
		if definedOutside(c.Call.Args[0], fr.loopBody[h]) {
			return c.Call.Args[0]
		}
	}
	return nil
}
