package main

import (
	"bytes"
	"context"
	"fmt"
	"os"
	"os/exec"
	"path/filepath"
	"regexp"
	"sort"
	"strings"
	"sync"
	"time"
)

// ---------------------------------------------------------------------------------------------
// Query construction (cone of influence) and solver portfolio
// ---------------------------------------------------------------------------------------------

var preludeSyms = func() map[string]bool {
	m := map[string]bool{}
	symbols(preludeSorts, func(s string) { m[s] = true })
	for _, s := range []string{"and", "or", "not", "=>", "=", "ite", "select", "store", "distinct", "forall", "exists", "let", "true", "false", "+", "-", "*", "<", "<=", ">", ">=",
		"div", "mod", "as", "const", "Array", "Int", "Bool", "Real", "_", "FloatingPoint", "RNE", "RTZ", "fp", "to_real", "to_int", "!", ":pattern", "to_fp"} {
		m[s] = true
	}
	return m
}()

func (u *Unit) buildQuery(o *Obl, wantModel bool) string {
	w := u.w
	ground := w.groundFacts() // may declare more tags
	implFacts := u.implFacts()
	ground = append(ground, implFacts...)
	// cone of influence over facts
	type fact struct {
		text string
		syms []string
	}
	mk := func(t string) fact {
		f := fact{text: t}
		seen := map[string]bool{}
		symbols(t, func(s string) {
			if !preludeSyms[s] && !seen[s] && !isNumeric(s) && !strings.HasPrefix(s, "#") && !strings.HasPrefix(s, "fp.") && !strings.HasPrefix(s, "|q:") {
				seen[s] = true
				f.syms = append(f.syms, s)
			}
		})
		return f
	}
	var all []fact
	for _, t := range u.facts {
		all = append(all, mk(t))
	}
	for _, t := range ground {
		all = append(all, mk(t))
	}
	goalText := and(o.Cond, not(o.Goal))
	var extra []string
	extra = append(extra, o.Extra...)
	rel := map[string]bool{}
	symbols(goalText+" "+strings.Join(extra, " "), func(s string) { rel[s] = true })
	included := make([]bool, len(all))
	for i, f := range all {
		if len(f.syms) == 0 {
			included[i] = true // facts over prelude symbols only (e.g. kind of the nil tag)
		}
	}
	// index: symbol -> facts
	idx := map[string][]int{}
	for i, f := range all {
		for _, s := range f.syms {
			idx[s] = append(idx[s], i)
		}
	}
	var queue []string
	for s := range rel {
		queue = append(queue, s)
	}
	for len(queue) > 0 {
		s := queue[len(queue)-1]
		queue = queue[:len(queue)-1]
		for _, i := range idx[s] {
			if included[i] {
				continue
			}
			// ground type facts (kind/named/...) about a tag are only pulled in by the tag itself
			included[i] = true
			for _, s2 := range all[i].syms {
				if !rel[s2] {
					rel[s2] = true
					queue = append(queue, s2)
				}
			}
		}
	}
	var sb strings.Builder
	if wantModel {
		sb.WriteString("(set-option :produce-models true)\n")
	}
	sb.WriteString("(set-logic ALL)\n")
	sb.WriteString(preludeSorts)
	for _, d := range w.sortDecls {
		sb.WriteString(d + "\n")
	}
	for _, d := range w.funDecls {
		// only declarations that are used
		name := declName(d)
		if rel[name] {
			sb.WriteString(d + "\n")
		}
	}
	for i, f := range all {
		if included[i] {
			sb.WriteString("(assert " + f.text + ")\n")
		}
	}
	for _, x := range extra {
		sb.WriteString("(assert " + x + ")\n")
	}
	sb.WriteString("(assert " + goalText + ")\n")
	sb.WriteString("(check-sat)\n")
	if wantModel {
		var vals []string
		for _, t := range u.watch {
			if rel[t] {
				vals = append(vals, t)
			}
		}
		if len(vals) > 0 {
			sb.WriteString("(get-value (" + strings.Join(vals, " ") + "))\n")
		}
	}
	return sb.String()
}

func isNumeric(s string) bool {
	if s == "" {
		return false
	}
	for _, c := range s {
		if !(c >= '0' && c <= '9') && c != '.' {
			return false
		}
	}
	return true
}

func declName(d string) string {
	// (declare-const NAME ...) or (declare-fun NAME ...
	rest := d[strings.Index(d, " ")+1:]
	if strings.HasPrefix(rest, "|") {
		j := strings.Index(rest[1:], "|")
		return rest[:j+2]
	}
	j := strings.IndexAny(rest, " )")
	return rest[:j]
}

// implFacts: ground facts "tag implements interface" for every tag/interface pair in play
func (u *Unit) implFacts() []string {
	var out []string
	var names []string
	for n := range u.implIfaces {
		names = append(names, n)
	}
	sort.Strings(names)
	for _, n := range names {
		it := u.implIfaces[n]
		iface := it.Underlying()
		for i := 0; i < len(u.w.tagOrder); i++ {
			key := u.w.tagOrder[i]
			t := u.w.tagTypes[key]
			out = append(out, fmt.Sprintf("(= (%s %s) %v)", n, u.w.tags[key], implementsType(t, iface)))
		}
		out = append(out, fmt.Sprintf("(not (%s T_nil))", n))
	}
	return out
}

type solverSpec struct {
	name string
	args []string
}

var solvers = []solverSpec{
	{"z3-new", []string{"-smt2"}},
	{"z3", []string{"-smt2"}},
	{"cvc5", []string{"--lang=smt2", "--produce-models"}},
}

type solveResult struct {
	status string // unsat sat unknown timeout error
	solver string
	secs   float64
	out    string
}

func runSolver(ctx context.Context, sp solverSpec, file string, timeout time.Duration) solveResult {
	args := append([]string{}, sp.args...)
	switch sp.name {
	case "z3", "z3-new":
		args = append(args, fmt.Sprintf("-T:%d", int(timeout.Seconds())+1))
	case "cvc5":
		args = append(args, fmt.Sprintf("--tlimit=%d", timeout.Milliseconds()))
	}
	args = append(args, file)
	cctx, cancel := context.WithTimeout(ctx, timeout+2*time.Second)
	defer cancel()
	cmd := exec.CommandContext(cctx, sp.name, args...)
	var out bytes.Buffer
	cmd.Stdout = &out
	cmd.Stderr = &out
	t0 := time.Now()
	_ = cmd.Run()
	secs := time.Since(t0).Seconds()
	text := out.String()
	first := strings.TrimSpace(strings.SplitN(text, "\n", 2)[0])
	r := solveResult{solver: sp.name, secs: secs, out: text}
	switch first {
	case "unsat", "sat", "unknown":
		r.status = first
	case "timeout":
		r.status = "timeout"
	default:
		if cctx.Err() != nil {
			r.status = "timeout"
		} else {
			r.status = "error"
		}
	}
	return r
}

// solveObl races the solvers; first definite answer (sat/unsat) wins.
func (u *Unit) solveObl(o *Obl, dir string, timeout time.Duration, which []solverSpec) {
	q := u.buildQuery(o, true)
	fn := filepath.Join(dir, sanitize(o.Name)+".smt2")
	_ = os.WriteFile(fn, []byte(q), 0o644)
	ctx, cancel := context.WithCancel(context.Background())
	defer cancel()
	ch := make(chan solveResult, len(which))
	for _, sp := range which {
		go func(sp solverSpec) { ch <- runSolver(ctx, sp, fn, timeout) }(sp)
	}
	var last solveResult
	var errs []string
	for range which {
		r := <-ch
		if r.status == "unsat" || r.status == "sat" {
			cancel()
			o.Solver = r.solver
			o.Secs = r.secs
			o.Raw = r.out
			if r.status == "unsat" {
				o.Status = "proved"
			} else {
				o.Status = "refuted"
				o.Model = parseModel(r.out)
			}
			return
		}
		if r.status == "error" {
			errs = append(errs, r.solver+": "+trunc(strings.ReplaceAll(r.out, "\n", " "), 300))
		}
		last = r
	}
	o.Status = "unknown"
	o.Solver = last.solver
	o.Secs = last.secs
	o.Raw = last.status + " " + strings.Join(errs, " | ")
}

var sanRe = regexp.MustCompile(`[^A-Za-z0-9_.#:@-]`)

func sanitize(s string) string { return sanRe.ReplaceAllString(s, "_") }

// parseModel parses "(get-value ...)" output: ((name value) ...)
func parseModel(out string) map[string]string {
	m := map[string]string{}
	i := strings.Index(out, "((")
	if i < 0 {
		return m
	}
	s := out[i+1:]
	// split top-level pairs
	d := 0
	start := -1
	inbar := false
	for j := 0; j < len(s); j++ {
		c := s[j]
		if c == '|' {
			inbar = !inbar
		}
		if inbar {
			continue
		}
		if c == '(' {
			if d == 0 {
				start = j
			}
			d++
		}
		if c == ')' {
			d--
			if d == 0 && start >= 0 {
				pair := s[start+1 : j]
				// name is first token
				var name, val string
				if strings.HasPrefix(pair, "|") {
					k := strings.Index(pair[1:], "|")
					name = pair[:k+2]
					val = strings.TrimSpace(pair[k+2:])
				} else if strings.HasPrefix(pair, "(") {
					// term: find matching paren
					dd := 0
					for k := 0; k < len(pair); k++ {
						if pair[k] == '(' {
							dd++
						}
						if pair[k] == ')' {
							dd--
							if dd == 0 {
								name = pair[:k+1]
								val = strings.TrimSpace(pair[k+1:])
								break
							}
						}
					}
				} else {
					k := strings.IndexAny(pair, " \n")
					if k > 0 {
						name = pair[:k]
						val = strings.TrimSpace(pair[k:])
					}
				}
				if name != "" {
					m[name] = strings.Join(strings.Fields(val), " ")
				}
				start = -1
			}
			if d < 0 {
				break
			}
		}
	}
	return m
}

// solveAll discharges all obligations of several units in parallel
func solveAll(units []*Unit, dir string, timeout time.Duration, which []solverSpec, par int) {
	type job struct {
		u *Unit
		o *Obl
	}
	var jobs []job
	for _, u := range units {
		for _, o := range u.obls {
			jobs = append(jobs, job{u, o})
		}
	}
	// query building mutates the world (tags); build sequentially per unit, solve in parallel
	var mu sync.Mutex
	_ = mu
	sem := make(chan struct{}, par)
	var wg sync.WaitGroup
	unitLocks := map[*Unit]*sync.Mutex{}
	for _, u := range units {
		unitLocks[u] = &sync.Mutex{}
	}
	for _, j := range jobs {
		wg.Add(1)
		sem <- struct{}{}
		go func(j job) {
			defer wg.Done()
			defer func() { <-sem }()
			lk := unitLocks[j.u]
			lk.Lock()
			q := j.u.buildQuery(j.o, true)
			lk.Unlock()
			j.u.solveText(j.o, q, dir, timeout, which)
		}(j)
	}
	wg.Wait()
}

// crossCheck (thorough tier): after the first definite answer the other solvers get a grace period; an opposite
// definite answer makes the obligation "disputed" (not discharged).
var crossCheck bool
var crossGrace = 4 * time.Second

func (u *Unit) solveText(o *Obl, q string, dir string, timeout time.Duration, which []solverSpec) {
	fn := filepath.Join(dir, sanitize(o.Name)+".smt2")
	_ = os.WriteFile(fn, []byte(q), 0o644)
	ctx, cancel := context.WithCancel(context.Background())
	defer cancel()
	ch := make(chan solveResult, len(which))
	for _, sp := range which {
		go func(sp solverSpec) { ch <- runSolver(ctx, sp, fn, timeout) }(sp)
	}
	var last solveResult
	var errs []string
	for i := range which {
		r := <-ch
		if r.status == "unsat" || r.status == "sat" {
			o.Solver = r.solver
			o.Secs = r.secs
			o.Raw = r.out
			if r.status == "unsat" {
				o.Status = "proved"
			} else {
				o.Status = "refuted"
				o.Model = parseModel(r.out)
			}
			o.Agree = 1
			if crossCheck {
				grace := time.After(crossGrace)
			collect:
				for j := i + 1; j < len(which); j++ {
					select {
					case r2 := <-ch:
						if r2.status == r.status {
							o.Agree++
						} else if r2.status == "unsat" || r2.status == "sat" {
							o.Status = "disputed"
							o.Raw = fmt.Sprintf("solvers disagree: %s says %s, %s says %s", r.solver, r.status, r2.solver, r2.status)
						}
					case <-grace:
						break collect
					}
				}
			}
			cancel()
			return
		}
		if r.status == "error" {
			errs = append(errs, r.solver+": "+trunc(strings.ReplaceAll(r.out, "\n", " "), 300))
		}
		last = r
	}
	o.Status = "unknown"
	o.Solver = last.solver
	o.Secs = last.secs
	o.Raw = last.status + " " + strings.Join(errs, " | ")
}
