package main

import (
	"fmt"
	"go/types"
	"sort"
	"strings"
)

// ---------------------------------------------------------------------------------------------
// Values, states, heap
// ---------------------------------------------------------------------------------------------

type valKind int

const (
	vTerm valKind = iota
	vAddr
	vTuple
	vFunc
	vIter
	vNone
)

type sel struct {
	field int    // >=0: struct field
	idx   string // field<0: array index term
	cont  types.Type
}

type Val struct {
	K     valKind
	T     string     // SMT term
	Ty    types.Type // Go type
	Heap  string     // vAddr: heap key
	Ref   string     // vAddr: Ref term
	Cell  types.Type // vAddr: Go type of the heap cell
	Sels  []sel
	Elems []*Val
	Fn    *fnRef
	It    *iterState
	Srt   string // sort override for spec-level values (no Go type)
}

type iterState struct {
	id      string
	mapRef  string
	mapTy   *types.Map
	isStr   bool
	strTerm string
}

func term(t string, ty types.Type) *Val { return &Val{K: vTerm, T: t, Ty: ty} }

type heapVersion struct {
	parent   string // framed parent heap (cells born before `before` and not in `except` are unchanged)
	before   string
	except   []string // refs that may differ
	fullOpen bool     // no frame at all
}

type State struct {
	pc    string
	heap  map[string]string
	now   string
	ghost map[string]string
	dead  bool
}

func (s *State) clone() *State {
	n := &State{pc: s.pc, now: s.now, heap: map[string]string{}, ghost: map[string]string{}, dead: s.dead}
	for k, v := range s.heap {
		n.heap[k] = v
	}
	for k, v := range s.ghost {
		n.ghost[k] = v
	}
	return n
}

// heap key helpers
func (u *Unit) keyT(t types.Type) string { return "T:" + u.w.typeStr(t) }
func (u *Unit) keyA(elem types.Type) string {
	return "A:" + u.w.typeStr(elem)
}
func (u *Unit) keyM(kind string, m *types.Map) string {
	return "M" + kind + ":" + u.w.typeStr(m.Key()) + "=>" + u.w.typeStr(m.Elem())
}

func (u *Unit) heapSort(key string) string {
	if s, ok := u.heapSorts[key]; ok {
		return s
	}
	panic("unknown heap key " + key)
}

func (u *Unit) regT(t types.Type) string {
	k := u.keyT(t)
	if _, ok := u.heapSorts[k]; !ok {
		u.heapSorts[k] = fmt.Sprintf("(Array Ref %s)", u.w.sortOf(t))
		u.heapElem[k] = t
	}
	return k
}

func (u *Unit) regA(elem types.Type) string {
	k := u.keyA(elem)
	if _, ok := u.heapSorts[k]; !ok {
		u.heapSorts[k] = fmt.Sprintf("(Array Ref (Array Int %s))", u.w.sortOf(elem))
		u.heapElem[k] = elem
	}
	return k
}

func (u *Unit) regM(m *types.Map) (string, string, string) {
	kd, kv, kl := u.keyM("d", m), u.keyM("v", m), u.keyM("l", m)
	if _, ok := u.heapSorts[kd]; !ok {
		ks, vs := u.w.sortOf(m.Key()), u.w.sortOf(m.Elem())
		u.heapSorts[kd] = fmt.Sprintf("(Array Ref (Array %s Bool))", ks)
		u.heapSorts[kv] = fmt.Sprintf("(Array Ref (Array %s %s))", ks, vs)
		u.heapSorts[kl] = "(Array Ref Int)"
		u.heapElem[kd] = m
		u.heapElem[kv] = m
		u.heapElem[kl] = m
	}
	return kd, kv, kl
}

// current heap term for a key in a state (entry heap if never written)
func (u *Unit) heapOf(s *State, key string) string {
	h, ok := s.heap[key]
	if !ok {
		h = u.entryHeap(key)
	}
	if u.readLog != nil {
		u.readLog[key] = h
	}
	return h
}

func (u *Unit) entryHeap(key string) string {
	n := quote("H0:" + key)
	u.w.declFun(n, nil, u.heapSort(key))
	return n
}

// newHeapVersion names a heap term
func (u *Unit) nameHeap(key string, t string) string {
	n := u.w.newConst("H:"+key, u.heapSort(key))
	u.fact(eq(n, t))
	// remember the heap versions this one is built from, so that frame axioms of those versions are
	// instantiated when this one is read
	var ps []string
	symbols(t, func(sy string) {
		if strings.HasPrefix(sy, "|H:") || strings.HasPrefix(sy, "|Hh:") || strings.HasPrefix(sy, "|Hm:") {
			ps = append(ps, sy)
		}
	})
	if len(ps) > 0 {
		u.hparents[n] = ps
	}
	return n
}

// havocHeap replaces a heap by a fresh one; cells born before `now` stay (frame) unless open.
func (u *Unit) havocHeap(s *State, key string, open bool, except []string) {
	old := u.heapOf(s, key)
	n := u.w.newConst("Hh:"+key, u.heapSort(key))
	if !open {
		u.hver[n] = &heapVersion{parent: old, before: s.now, except: except}
	}
	s.heap[key] = n
}

// sel1 reads heap[ref], instantiating frame axioms for framed versions.
func (u *Unit) sel1(h string, ref string) string {
	t := fmt.Sprintf("(select %s %s)", h, ref)
	if ps, ok := u.hparents[h]; ok {
		ck := "par:" + h + "@" + ref
		if !u.frameDone[ck] {
			u.frameDone[ck] = true
			for _, p := range ps {
				u.sel1(p, ref)
			}
		}
	}
	if hv, ok := u.hver[h]; ok {
		ck := h + "@" + ref
		if !u.frameDone[ck] {
			u.frameDone[ck] = true
			cond := fmt.Sprintf("(< (birth %s) %s)", ref, hv.before)
			for _, e := range hv.except {
				cond = and(cond, not(eq(ref, e)))
			}
			u.fact(implies(cond, eq(t, u.sel1(hv.parent, ref))))
		}
	}
	return t
}

// load through an address
func (u *Unit) loadAddr(s *State, a *Val) string {
	cell := u.sel1(u.heapOf(s, a.Heap), a.Ref)
	return u.applySels(cell, a.Sels)
}

func (u *Unit) applySels(t string, sels []sel) string {
	for _, sl := range sels {
		if sl.field >= 0 {
			t = u.w.fieldSel(sl.cont, sl.field, t)
		} else {
			t = fmt.Sprintf("(select %s %s)", t, sl.idx)
		}
	}
	return t
}

func (u *Unit) updSels(t string, sels []sel, v string) string {
	if len(sels) == 0 {
		return v
	}
	sl := sels[0]
	if sl.field >= 0 {
		inner := u.w.fieldSel(sl.cont, sl.field, t)
		return u.w.fieldUpd(sl.cont, sl.field, t, u.updSels(inner, sels[1:], v))
	}
	inner := fmt.Sprintf("(select %s %s)", t, sl.idx)
	return fmt.Sprintf("(store %s %s %s)", t, sl.idx, u.updSels(inner, sels[1:], v))
}

func (u *Unit) storeAddr(s *State, a *Val, v string) {
	h := u.heapOf(s, a.Heap)
	cell := u.sel1(h, a.Ref)
	nc := u.updSels(cell, a.Sels, v)
	s.heap[a.Heap] = u.nameHeap(a.Heap, fmt.Sprintf("(store %s %s %s)", h, a.Ref, nc))
}

// closedPre: a reference stored in memory that existed at entry, as it was at entry, denotes an object
// that existed at entry (closed pre-state heap)
func (u *Unit) closedPre(a *Val, ty types.Type) {
	var get func(t string) string
	switch ty.Underlying().(type) {
	case *types.Pointer, *types.Map, *types.Chan, *types.Signature:
		get = func(t string) string { return t }
	case *types.Slice:
		get = func(t string) string { return "(sdata " + t + ")" }
	case *types.Interface:
		_, ub := u.w.boxFn("Ref")
		get = func(t string) string { return "(" + ub + " (ival " + t + "))" }
	default:
		return
	}
	t0 := u.applySels(fmt.Sprintf("(select %s %s)", u.entryHeap(a.Heap), a.Ref), a.Sels)
	ck := "closed:" + t0
	if u.frameDone[ck] {
		return
	}
	u.frameDone[ck] = true
	u.fact(implies(fmt.Sprintf("(< (birth %s) %s)", a.Ref, u.entryNow), fmt.Sprintf("(< (birth %s) %s)", get(t0), u.entryNow)))
}

// addrOfPtr turns a pointer value into an address
func (u *Unit) addrOfPtr(p *Val) *Val {
	if p.K == vAddr {
		return p
	}
	pt, ok := p.Ty.Underlying().(*types.Pointer)
	if !ok {
		panic(fmt.Sprintf("addrOfPtr: not a pointer: %v", p.Ty))
	}
	el := pt.Elem()
	if at, ok := el.Underlying().(*types.Array); ok {
		return &Val{K: vAddr, Heap: u.regA(at.Elem()), Ref: p.T, Cell: el, Ty: p.Ty}
	}
	return &Val{K: vAddr, Heap: u.regT(el), Ref: p.T, Cell: el, Ty: p.Ty}
}

// alloc creates a fresh reference
func (u *Unit) allocRef(s *State, prefix string) string {
	r := u.w.newConst(prefix, "Ref")
	u.fact(fmt.Sprintf("(distinct %s nil)", r))
	u.fact(eq(fmt.Sprintf("(birth %s)", r), s.now))
	nn := u.w.newConst("now", "Int")
	u.fact(eq(nn, fmt.Sprintf("(+ %s 1)", s.now)))
	s.now = nn
	return r
}

// merge states reached under conditions
func (u *Unit) merge(states []*State, label string) *State {
	var live []*State
	for _, s := range states {
		if s != nil && !s.dead && s.pc != "false" {
			live = append(live, s)
		}
	}
	if len(live) == 0 {
		return &State{pc: "false", heap: map[string]string{}, ghost: map[string]string{}, now: "0", dead: true}
	}
	if len(live) == 1 {
		return live[0].clone()
	}
	out := &State{heap: map[string]string{}, ghost: map[string]string{}}
	var pcs []string
	for _, s := range live {
		pcs = append(pcs, s.pc)
	}
	pcn := u.w.newConst("in:"+label, "Bool")
	u.fact(eq(pcn, or(pcs...)))
	out.pc = pcn
	// heaps
	keys := map[string]bool{}
	for _, s := range live {
		for k := range s.heap {
			keys[k] = true
		}
	}
	var ks []string
	for k := range keys {
		ks = append(ks, k)
	}
	sort.Strings(ks)
	for _, k := range ks {
		same := true
		first := u.heapOf(live[0], k)
		for _, s := range live[1:] {
			if u.heapOf(s, k) != first {
				same = false
			}
		}
		if same {
			out.heap[k] = first
			continue
		}
		n := u.w.newConst("Hm:"+k, u.heapSort(k))
		var ps []string
		for _, s := range live {
			u.fact(implies(s.pc, eq(n, u.heapOf(s, k))))
			ps = append(ps, u.heapOf(s, k))
		}
		u.hparents[n] = ps
		out.heap[k] = n
	}
	// now
	same := true
	for _, s := range live[1:] {
		if s.now != live[0].now {
			same = false
		}
	}
	if same {
		out.now = live[0].now
	} else {
		n := u.w.newConst("now", "Int")
		for _, s := range live {
			u.fact(implies(s.pc, eq(n, s.now)))
		}
		out.now = n
	}
	// ghosts
	gk := map[string]bool{}
	for _, s := range live {
		for k := range s.ghost {
			gk[k] = true
		}
	}
	var gks []string
	for k := range gk {
		gks = append(gks, k)
	}
	sort.Strings(gks)
	for _, k := range gks {
		srt := u.ghostSort[k]
		if srt == "" {
			continue
		}
		first := u.ghostOf(live[0], k)
		same := true
		for _, s := range live[1:] {
			if u.ghostOf(s, k) != first {
				same = false
			}
		}
		if same {
			out.ghost[k] = first
			continue
		}
		n := u.w.newConst("g:"+k, srt)
		for _, s := range live {
			u.fact(implies(s.pc, eq(n, u.ghostOf(s, k))))
		}
		out.ghost[k] = n
	}
	return out
}

// wfFacts: well-formedness assumptions for a value of Go type t that comes from outside
// (parameter, heap load, callee result): integer ranges, slice header sanity, object existence.
func (u *Unit) wfFacts(s *State, t string, ty types.Type, depth int) []string {
	var out []string
	switch x := ty.Underlying().(type) {
	case *types.Basic:
		if x.Info()&types.IsInteger != 0 {
			lo, hi := intRange(x)
			out = append(out, fmt.Sprintf("(<= %s %s)", lo, t), fmt.Sprintf("(<= %s %s)", t, hi))
		}
		if x.Info()&types.IsString != 0 {
			out = append(out, fmt.Sprintf("(>= (strlen %s) 0)", t))
		}
	case *types.Pointer, *types.Map, *types.Chan, *types.Signature:
		out = append(out, fmt.Sprintf("(< (birth %s) %s)", t, s.now))
	case *types.Slice:
		out = append(out, fmt.Sprintf("(<= 0 (soff %s))", t), fmt.Sprintf("(<= 0 (slen %s))", t),
			fmt.Sprintf("(<= (slen %s) (scap %s))", t, t), fmt.Sprintf("(< (scap %s) 281474976710656)", t),
			fmt.Sprintf("(< (soff %s) 281474976710656)", t),
			fmt.Sprintf("(< (birth (sdata %s)) %s)", t, s.now),
			fmt.Sprintf("(=> (= (sdata %s) nil) (= (scap %s) 0))", t, t))
	case *types.Struct:
		if depth > 2 {
			break
		}
		si := u.w.structOf(ty)
		if si.ctor == "" {
			break
		}
		for i := 0; i < x.NumFields(); i++ {
			out = append(out, u.wfFacts(s, u.w.fieldSel(ty, i, t), x.Field(i).Type(), depth+1)...)
		}
	case *types.Interface:
		out = append(out, fmt.Sprintf("(=> (= (ityp %s) T_nil) (= (ival %s) boxnil))", t, t))
		if n, ok := ty.(*types.Named); ok && n.Obj().Pkg() != nil && n.Obj().Pkg().Path() == "reflect" && n.Obj().Name() == "Type" {
			// reflect.Type values are type identities boxed in the (opaque) *rtype
			bx, ub := u.w.boxFn("TypeTag")
			out = append(out, fmt.Sprintf("(=> (distinct (ityp %s) T_nil) (and (= (ityp %s) %s) (= (%s (%s (ival %s))) (ival %s))))", t, t, u.w.opaqueTag("*reflect.rtype", 22), bx, ub, t, t))
		}
	}
	return out
}

func intRange(b *types.Basic) (string, string) {
	switch b.Kind() {
	case types.Int8:
		return "(- 128)", "127"
	case types.Int16:
		return "(- 32768)", "32767"
	case types.Int32, types.UntypedRune:
		return "(- 2147483648)", "2147483647"
	case types.Uint8:
		return "0", "255"
	case types.Uint16:
		return "0", "65535"
	case types.Uint32:
		return "0", "4294967295"
	case types.Uint, types.Uint64, types.Uintptr:
		return "0", "18446744073709551615"
	}
	return "(- 9223372036854775808)", "9223372036854775807"
}

func intBits(b *types.Basic) (bits int, signed bool) {
	switch b.Kind() {
	case types.Int8:
		return 8, true
	case types.Int16:
		return 16, true
	case types.Int32, types.UntypedRune:
		return 32, true
	case types.Uint8:
		return 8, false
	case types.Uint16:
		return 16, false
	case types.Uint32:
		return 32, false
	case types.Uint, types.Uint64, types.Uintptr:
		return 64, false
	}
	return 64, true
}

func pow2(n int) string {
	switch n {
	case 7:
		return "128"
	case 8:
		return "256"
	case 15:
		return "32768"
	case 16:
		return "65536"
	case 31:
		return "2147483648"
	case 32:
		return "4294967296"
	case 63:
		return "9223372036854775808"
	case 64:
		return "18446744073709551616"
	}
	panic("pow2")
}

// wrap an exact integer result into the range of type b (two's complement)
func wrapInt(t string, b *types.Basic) string {
	bits, signed := intBits(b)
	lo, hi := intRange(b)
	if signed {
		return fmt.Sprintf("(let ((wx %s)) (ite (and (<= %s wx) (<= wx %s)) wx (- (mod (+ wx %s) %s) %s)))", t, lo, hi, pow2(bits-1), pow2(bits), pow2(bits-1))
	}
	return fmt.Sprintf("(let ((wx %s)) (ite (and (<= 0 wx) (<= wx %s)) wx (mod wx %s)))", t, hi, pow2(bits))
}

func isSimpleTerm(t string) bool { return !strings.ContainsAny(t, " (") }
