package main

// Structural locators for source-level local names.
//
// Contracts live in a separate comment file and mention locals of the function by their source names (loop
// accumulators in invariants, witnesses in `checks` clauses). A harmless rename of such a local would otherwise make
// the contract unreadable against the code. When the claims of a property are (re)generated on the unchanged tree,
// every named value of every function under contract is recorded as a locator that does not depend on names:
// (instruction kind, Go type, ordinal among the values of that kind and type in block order). At check time a name
// that no longer resolves is looked up through its recorded locator; the substitution is listed in the evidence notes.

import (
	"encoding/json"
	"fmt"
	"go/types"
	"os"
	"path/filepath"
	"sort"
	"strings"

	"golang.org/x/tools/go/ssa"
)

func valueLocators(fn *ssa.Function) map[ssa.Value]string {
	out := map[ssa.Value]string{}
	count := map[string]int{}
	qual := func(p *types.Package) string { return p.Path() }
	for i, fv := range fn.FreeVars {
		out[fv] = fmt.Sprintf("fv|%d", i)
	}
	for _, b := range fn.Blocks {
		for _, in := range b.Instrs {
			v, ok := in.(ssa.Value)
			if !ok {
				continue
			}
			k := fmt.Sprintf("%T|%s", in, types.TypeString(v.Type(), qual))
			out[v] = fmt.Sprintf("%s|%d", k, count[k])
			count[k]++
		}
	}
	return out
}

// localLocators: source name -> locator, for the unique names of the function
func (fr *Frame) localLocators() map[string]string {
	locs := valueLocators(fr.fn)
	out := map[string]string{}
	for n, v := range fr.nameVals {
		if l, ok := locs[v]; ok {
			out[n] = "val|" + l
		}
	}
	for n, v := range fr.nameAddrs {
		if _, dup := out[n]; dup {
			continue
		}
		if l, ok := locs[v]; ok {
			out[n] = "addr|" + l
		}
	}
	for _, fv := range fr.fn.FreeVars {
		if _, dup := out[fv.Name()]; !dup {
			out[fv.Name()] = "cell|" + locs[fv]
		}
	}
	// names with several definitions (resolved by dominance at the place of use)
	for n, cs := range fr.nameCands {
		if len(cs) < 2 {
			continue
		}
		var ls []string
		for _, c := range cs {
			if l, ok := locs[c]; ok {
				ls = append(ls, l)
			}
		}
		sort.Strings(ls)
		out["cands:"+n] = strings.Join(ls, ";")
	}
	return out
}

// renamedValue: the value a baseline name denoted, found through its locator
func (fr *Frame) renamedValue(name string) (ssa.Value, string) {
	base := fr.u.eng.baseLocals[fnKey(fr.fn)]
	if base == nil {
		return nil, ""
	}
	loc, ok := base[name]
	if !ok {
		return nil, ""
	}
	kind := ""
	for _, k := range []string{"val|", "addr|", "cell|"} {
		if len(loc) > len(k) && loc[:len(k)] == k {
			kind, loc = k[:len(k)-1], loc[len(k):]
		}
	}
	if fr.locIndex == nil {
		fr.locIndex = map[string]ssa.Value{}
		for v, l := range valueLocators(fr.fn) {
			fr.locIndex[l] = v
		}
	}
	return fr.locIndex[loc], kind
}

func loadBaseLocals(verif string) map[string]map[string]string {
	out := map[string]map[string]string{}
	data, err := os.ReadFile(filepath.Join(verif, "claims", "locals.json"))
	if err != nil {
		return out
	}
	_ = json.Unmarshal(data, &out)
	return out
}

func writeBaseLocals(verif string, upd map[string]map[string]string) {
	cur := loadBaseLocals(verif)
	for k, v := range upd {
		cur[k] = v
	}
	keys := make([]string, 0, len(cur))
	for k := range cur {
		keys = append(keys, k)
	}
	sort.Strings(keys)
	data, _ := json.MarshalIndent(cur, "", " ")
	os.MkdirAll(filepath.Join(verif, "claims"), 0o755)
	os.WriteFile(filepath.Join(verif, "claims", "locals.json"), data, 0o644)
}

// renamedCands: the definitions a baseline name with several definitions had
func (fr *Frame) renamedCands(name string) []ssa.Value {
	base := fr.u.eng.baseLocals[fnKey(fr.fn)]
	if base == nil || base["cands:"+name] == "" {
		return nil
	}
	if fr.locIndex == nil {
		fr.locIndex = map[string]ssa.Value{}
		for v, l := range valueLocators(fr.fn) {
			fr.locIndex[l] = v
		}
	}
	var out []ssa.Value
	for _, l := range strings.Split(base["cands:"+name], ";") {
		if v := fr.locIndex[l]; v != nil {
			out = append(out, v)
		}
	}
	return out
}
