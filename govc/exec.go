package main

import (
	"fmt"
	"go/ast"
	"go/constant"
	"go/token"
	"go/types"
	"math"
	"os"
	"sort"
	"strings"

	"golang.org/x/tools/go/ssa"
)

// ---------------------------------------------------------------------------------------------
// Unit: one function under verification (with everything inlined into it)
// ---------------------------------------------------------------------------------------------

type Obl struct {
	Name  string
	Class string
	Cond  string
	Goal  string
	Pos   string
	Note  string
	Extra []string // extra assumptions only for this obligation
	// results
	Status string // proved | refuted | unknown
	Solver string
	Secs   float64
	Model  map[string]string
	Raw    string
	Agree  int // number of solvers that gave this verdict (thorough tier)
}

type unsupported struct{ msg string }

type Unit struct {
	eng             *Engine
	w               *World
	fun             *ssa.Function
	name            string
	facts           []string
	obls            []*Obl
	oblCount        map[string]int
	heapSorts       map[string]string
	heapElem        map[string]types.Type
	hver            map[string]*heapVersion
	frameDone       map[string]bool
	ghostSort       map[string]string
	notes           map[string]bool // uncontracted calls, havocs, ...
	inlined         map[string]bool
	usedSpecs       map[string]bool
	top             *Frame
	watch           []string // terms to print in models
	watchName       []string
	unsup           string
	checkFrame      bool // emit frame obligations (assigns nothing)
	entryNow        string
	usedStd         map[string]bool
	usedPure        map[string]bool
	usedContracts   map[string]bool
	implIfaces      map[string]types.Type
	assume          map[string]bool
	assignable      func(ref, what string) string
	globals         []string
	arithChecked    bool
	quantOK         bool
	sliceConstLen   map[string]int
	axiomErrs       []string
	localLocs       map[string]map[string]string // function key -> source name -> structural locator
	replayWhy       string
	exitPc          string      // path condition of the merged return state (reachability cover)
	retPcs          [][2]string // path condition and position of every return of the top-level function
	edgePcs         [][2]string // path condition and description of every conditional CFG edge of the top-level function
	lastMonBase     map[*Monitor]*monBase
	enumTag         map[string]*enumInfo // slice term -> the map whose keys it enumerates (after the loop)
	usedInvs        map[string]bool
	hparents        map[string][]string
	qsorts          map[string]string
	readLog         map[string]string
	noInv           bool
	noLoopInv       bool // declared loop invariants are not used in this unit
	skipInv         map[string]bool
	insertOnlyAddrs []*Val
	noDeleteAddrs   []*Val
	frameMode       bool
	monitorHook     func(fr *Frame, name string, st *State, args []*Val, pos token.Pos)
	ospecDone       map[string]bool
}

func (u *Unit) fact(f string) {
	if f == "true" || f == "" {
		return
	}
	if strings.Contains(f, "|q:") {
		// side-effect facts produced while evaluating under a quantifier mention its bound variables:
		// close them universally
		var free []string
		seen := map[string]bool{}
		symbols(f, func(sy string) {
			if strings.HasPrefix(sy, "|q:") && !seen[sy] {
				seen[sy] = true
				if !strings.Contains(f, "(("+sy+" ") && !strings.Contains(f, " ("+sy+" ") {
					free = append(free, sy)
				}
			}
		})
		if len(free) > 0 {
			var bs []string
			for _, v := range free {
				srt := u.qsorts[v]
				if srt == "" {
					return
				}
				bs = append(bs, fmt.Sprintf("(%s %s)", v, srt))
			}
			f = fmt.Sprintf("(forall (%s) %s)", strings.Join(bs, " "), f)
		}
	}
	u.facts = append(u.facts, f)
}

func (u *Unit) note(s string) { u.notes[s] = true }

func (u *Unit) unsupportedf(format string, a ...any) {
	panic(unsupported{fmt.Sprintf(format, a...)})
}

// oblige registers an obligation and afterwards assumes its goal on the current path.
func (u *Unit) oblige(fr *Frame, s *State, class, detail, goal string, pos token.Pos, note string) {
	if s.dead || s.pc == "false" {
		return
	}
	if goal == "true" {
		return
	}
	if panicClass[class] && fr != nil {
		if rf := fr.recoveringFrame(); rf != nil {
			ps := s.clone()
			n1 := u.w.newConst("pcpanic", "Bool")
			u.fact(eq(n1, and(s.pc, not(goal))))
			ps.pc = n1
			rf.panicked = append(rf.panicked, ps)
			n2 := u.w.newConst("pc", "Bool")
			u.fact(eq(n2, and(s.pc, goal)))
			s.pc = n2
			return
		}
	}
	key := class
	if detail != "" {
		key += ":" + detail
	}
	if fr != nil && fr.ctx != "" {
		key += "@" + fr.ctx
	}
	u.oblCount[key]++
	name := fmt.Sprintf("%s#%s:%d", u.name, key, u.oblCount[key])
	o := &Obl{Name: name, Class: class, Cond: s.pc, Goal: goal, Note: note}
	if pos.IsValid() {
		p := u.eng.fset.Position(pos)
		o.Pos = fmt.Sprintf("%s:%d", shortFile(p.Filename), p.Line)
	}
	u.obls = append(u.obls, o)
	if fr == nil {
		return
	}
	// assume afterwards - only where a violation stops the execution (panics) or makes the rest meaningless (a
	// callee precondition, an assertion of the contract itself). Frame, order and lock-discipline violations do not
	// stop the program: the code after them is still judged on every path.
	if !panicClass[class] && class != "pre" && class != "inv-init" && class != "inv-keep" && class != "inv-auto" && class != "ovf" {
		return
	}
	npc := u.w.newConst("pc", "Bool")
	u.fact(eq(npc, and(s.pc, goal)))
	s.pc = npc
}

var panicClass = map[string]bool{"nil": true, "assert": true, "idx": true, "div": true, "nilmap": true, "ifaceeq": true, "libpre": true, "panic": true,
	"closedsend": true, "doubleclose": true}

// repoRootDir: the repository the engine was loaded from (source positions are reported relative to it)
var repoRootDir string

func shortFile(f string) string {
	if repoRootDir != "" && strings.HasPrefix(f, repoRootDir+"/") {
		return f[len(repoRootDir)+1:]
	}
	if i := strings.Index(f, "/repo/"); i >= 0 {
		return f[i+6:]
	}
	return f
}

// ---------------------------------------------------------------------------------------------
// Frame: one activation (top-level or inlined)
// ---------------------------------------------------------------------------------------------

type retInfo struct {
	st   *State
	vals []*Val
}

type Frame struct {
	u                                  *Unit
	fn                                 *ssa.Function
	vals                               map[ssa.Value]*Val
	params                             []*Val
	binds                              []*Val
	out                                map[*ssa.BasicBlock]*State
	edges                              map[[2]int]*State
	rets                               []retInfo
	depth                              int
	ctx                                string
	stack                              []*ssa.Function
	backEdge                           map[[2]int]bool
	loopOrd                            map[*ssa.BasicBlock]int
	loopBody                           map[*ssa.BasicBlock]map[*ssa.BasicBlock]bool
	idxEnums                           map[*ssa.BasicBlock]*idxEnum
	entry                              *State
	contract                           *Contract
	defers                             []*ssa.Defer
	names                              map[string]*Val // source variable names -> value (unique definitions)
	phiNames                           map[*ssa.BasicBlock]map[string]ssa.Value
	iters                              map[*ssa.BasicBlock][]*iterState // iterators advanced in this loop header
	panicked                           []*State                         // states at explicit panics / failed callee (for recover)
	recoverV                           *Val
	parent                             *Frame
	recoverKnown, recoverYes, inDefers bool
	deferConds                         []string
	entryPc                            string
	recoverEntry                       *State
	mats                               map[*Val]*Val
	ctVars                             map[string]*Val
	ctCells                            map[string]*Val // captured variables: source name -> address of the cell
	nameVals                           map[string]ssa.Value
	nameAddrs                          map[string]ssa.Value
	lastKeyInfo                        keyInfo
	lastSliceBase                      ssa.Value
	loopTargets                        map[*ssa.BasicBlock]map[string][]ssa.Value
	freshBase                          string
	loopPreSt                          map[*ssa.BasicBlock]*State // state on entry of each loop (for atloop and allocation-age invariants)
	loopPreEnv                         map[*ssa.BasicBlock]*Env
	curInstr                           ssa.Instruction
	nameCands                          map[string][]ssa.Value // source names with several definitions
	locIndex                           map[string]ssa.Value
	retPos                             []string
}

func (fr *Frame) val(v ssa.Value) *Val {
	if x, ok := fr.vals[v]; ok {
		return x
	}
	u := fr.u
	switch c := v.(type) {
	case *ssa.Const:
		return u.constVal(c)
	case *ssa.Function:
		return &Val{K: vFunc, Fn: &fnRef{fn: c}, Ty: c.Type(), T: u.fnConst(c)}
	case *ssa.Global:
		// address of a package-level variable: a fixed reference
		el := c.Type().(*types.Pointer).Elem()
		r := quote("global:" + c.RelString(nil))
		u.w.declFun(r, nil, "Ref")
		if !u.frameDone["g:"+r] {
			u.frameDone["g:"+r] = true
			u.fact(fmt.Sprintf("(distinct %s nil)", r))
			u.fact(fmt.Sprintf("(< (birth %s) 0)", r))
			u.globals = append(u.globals, r)
			if c.RelString(nil) == "os.Args" {
				// os.Args always holds at least the program name
				k := u.regT(el)
				u.fact(fmt.Sprintf("(>= (slen (select %s %s)) 1)", u.entryHeap(k), r))
				u.assume["os.Args has at least one element (the program name)"] = true
			}
		}
		return u.addrOfPtr(&Val{K: vTerm, T: r, Ty: types.NewPointer(el)})
	case *ssa.FreeVar:
		for i, f := range fr.fn.FreeVars {
			if f == c && i < len(fr.binds) {
				return fr.binds[i]
			}
		}
	case *ssa.Builtin:
		return &Val{K: vNone, Ty: c.Type()}
	}
	u.unsupportedf("no value for %s (%T) in %s", v.Name(), v, fr.fn.Name())
	return nil
}

func (u *Unit) fnConst(f *ssa.Function) string {
	n := quote("fn:" + f.RelString(nil))
	u.w.declFun(n, nil, "Ref")
	if !u.frameDone["fn:"+n] {
		u.frameDone["fn:"+n] = true
		u.fact(fmt.Sprintf("(distinct %s nil)", n))
		u.fact(fmt.Sprintf("(< (birth %s) 0)", n))
	}
	return n
}

func (u *Unit) constVal(c *ssa.Const) *Val {
	t := c.Type()
	if c.Value == nil {
		return term(u.w.zero(t), t)
	}
	switch b := t.Underlying().(type) {
	case *types.Basic:
		switch {
		case b.Info()&types.IsBoolean != 0:
			return term(fmt.Sprintf("%v", constant.BoolVal(c.Value)), t)
		case b.Info()&types.IsInteger != 0:
			if i, ok := constant.Int64Val(constant.ToInt(c.Value)); ok {
				return term(intLit(i), t)
			}
			if ui, ok := constant.Uint64Val(constant.ToInt(c.Value)); ok {
				return term(uintLit(ui), t)
			}
		case b.Info()&types.IsFloat != 0:
			f, _ := constant.Float64Val(c.Value)
			if b.Kind() == types.Float32 {
				return term(f32Lit(float32(f)), t)
			}
			return term(f64Lit(f), t)
		case b.Info()&types.IsString != 0:
			return term(u.w.strLit(constant.StringVal(c.Value)), t)
		}
	}
	u.unsupportedf("constant %v of type %v", c.Value, t)
	return nil
}

func f64Lit(f float64) string {
	b := math.Float64bits(f)
	return fmt.Sprintf("(fp #b%01b #b%011b #b%052b)", b>>63, (b>>52)&0x7ff, b&((1<<52)-1))
}

func f32Lit(f float32) string {
	b := math.Float32bits(f)
	return fmt.Sprintf("(fp #b%01b #b%08b #b%023b)", b>>31, (b>>23)&0xff, b&((1<<23)-1))
}

// ---------------------------------------------------------------------------------------------
// CFG helpers
// ---------------------------------------------------------------------------------------------

func (fr *Frame) analyzeCFG() {
	fn := fr.fn
	fr.backEdge = map[[2]int]bool{}
	fr.loopOrd = map[*ssa.BasicBlock]int{}
	fr.loopBody = map[*ssa.BasicBlock]map[*ssa.BasicBlock]bool{}
	var headers []*ssa.BasicBlock
	for _, b := range fn.Blocks {
		for _, s := range b.Succs {
			if s.Dominates(b) {
				fr.backEdge[[2]int{b.Index, s.Index}] = true
				if _, ok := fr.loopBody[s]; !ok {
					fr.loopBody[s] = map[*ssa.BasicBlock]bool{s: true}
					headers = append(headers, s)
				}
				// natural loop: nodes reaching b without passing s
				body := fr.loopBody[s]
				var stack []*ssa.BasicBlock
				if !body[b] {
					body[b] = true
					stack = append(stack, b)
				}
				for len(stack) > 0 {
					x := stack[len(stack)-1]
					stack = stack[:len(stack)-1]
					for _, p := range x.Preds {
						if !body[p] {
							body[p] = true
							stack = append(stack, p)
						}
					}
				}
			}
		}
	}
	// loop ordinals in source order (position of the first instruction with a position in header or body)
	sort.SliceStable(headers, func(i, j int) bool {
		return fr.loopPos(headers[i]) < fr.loopPos(headers[j])
	})
	for i, h := range headers {
		fr.loopOrd[h] = i + 1
	}
}

func (fr *Frame) loopPos(h *ssa.BasicBlock) token.Pos {
	best := token.Pos(math.MaxInt32)
	for b := range fr.loopBody[h] {
		for _, in := range b.Instrs {
			if p := in.Pos(); p.IsValid() && p < best {
				best = p
			}
		}
	}
	return best
}

func (fr *Frame) topoOrder() []*ssa.BasicBlock {
	fn := fr.fn
	seen := map[*ssa.BasicBlock]bool{}
	var post []*ssa.BasicBlock
	var dfs func(b *ssa.BasicBlock)
	dfs = func(b *ssa.BasicBlock) {
		seen[b] = true
		for _, s := range b.Succs {
			if fr.backEdge[[2]int{b.Index, s.Index}] || seen[s] {
				continue
			}
			dfs(s)
		}
		post = append(post, b)
	}
	dfs(fn.Blocks[0])
	if fn.Recover != nil && !seen[fn.Recover] {
		// recover block handled separately
	}
	for i, j := 0, len(post)-1; i < j; i, j = i+1, j-1 {
		post[i], post[j] = post[j], post[i]
	}
	return post
}

// ---------------------------------------------------------------------------------------------
// Execution of a frame
// ---------------------------------------------------------------------------------------------

func (fr *Frame) run(entry *State) (*State, []*Val) {
	u := fr.u
	fn := fr.fn
	if len(fn.Blocks) == 0 {
		u.unsupportedf("function %s has no body", fn.Name())
	}
	fr.analyzeCFG()
	fr.out = map[*ssa.BasicBlock]*State{}
	fr.edges = map[[2]int]*State{}
	fr.entry = entry.clone()
	fr.collectNames()
	fr.recordLocators()
	order := fr.topoOrder()
	for _, b := range order {
		fr.runBlock(b, entry)
	}
	fr.finishPanics()
	// merge returns
	var sts []*State
	for _, r := range fr.rets {
		sts = append(sts, r.st)
	}
	exit := u.merge(sts, fn.Name()+":ret")
	var results []*Val
	if len(fr.rets) > 0 {
		n := len(fr.rets[0].vals)
		for i := 0; i < n; i++ {
			var alts []*Val
			var conds []string
			for _, r := range fr.rets {
				if r.st.dead || r.st.pc == "false" {
					continue
				}
				alts = append(alts, r.vals[i])
				conds = append(conds, r.st.pc)
			}
			results = append(results, u.mergeVals(alts, conds, fn.Signature.Results().At(i).Type(), fmt.Sprintf("ret%d", i)))
		}
	}
	return exit, results
}

func (u *Unit) mergeVals(alts []*Val, conds []string, ty types.Type, label string) *Val {
	if len(alts) == 0 {
		return term(u.w.zero(ty), ty)
	}
	allSame := true
	for _, a := range alts[1:] {
		if a.K != vTerm || alts[0].K != vTerm || a.T != alts[0].T {
			allSame = false
		}
	}
	if alts[0].K != vTerm {
		if len(alts) == 1 {
			return alts[0]
		}
		// try materialising
		for i, a := range alts {
			if a.K == vFunc {
				alts[i] = term(a.T, a.Ty)
			} else if a.K != vTerm {
				u.unsupportedf("merge of non-term values (%s)", label)
			}
		}
		allSame = false
	}
	if allSame {
		return alts[0]
	}
	for _, a := range alts {
		if a.K != vTerm {
			if a.K == vFunc {
				continue
			}
			u.unsupportedf("merge of non-term values (%s)", label)
		}
	}
	srt := u.w.sortOf(ty)
	n := u.w.newConst(label, srt)
	for i, a := range alts {
		u.fact(implies(conds[i], eq(n, a.T)))
	}
	return term(n, ty)
}

func (fr *Frame) collectNames() {
	fr.names = map[string]*Val{}
	fr.phiNames = map[*ssa.BasicBlock]map[string]ssa.Value{}
	fr.nameVals = map[string]ssa.Value{}
	fr.nameAddrs = map[string]ssa.Value{}
	amb := map[string]bool{}
	for _, b := range fr.fn.Blocks {
		for _, in := range b.Instrs {
			d, ok := in.(*ssa.DebugRef)
			if !ok {
				continue
			}
			id, ok := d.Expr.(*ast.Ident)
			if !ok {
				continue
			}
			if d.IsAddr {
				// a variable that lives in memory (captured by a closure, address taken): name -> its cell
				if _, isAlloc := d.X.(*ssa.Alloc); isAlloc {
					if old, ok := fr.nameAddrs[id.Name]; ok && old != d.X {
						amb["&"+id.Name] = true
					}
					fr.nameAddrs[id.Name] = d.X
				}
				continue
			}
			if old, ok := fr.nameVals[id.Name]; ok && old != d.X {
				amb[id.Name] = true
			}
			fr.nameVals[id.Name] = d.X
			if fr.nameCands == nil {
				fr.nameCands = map[string][]ssa.Value{}
			}
			dupc := false
			for _, c := range fr.nameCands[id.Name] {
				if c == d.X {
					dupc = true
				}
			}
			if !dupc {
				fr.nameCands[id.Name] = append(fr.nameCands[id.Name], d.X)
			}
		}
	}
	for n := range amb {
		if strings.HasPrefix(n, "&") {
			delete(fr.nameAddrs, n[1:])
		}
	}
	// instantiations of generic functions carry no debug references: map the origin's through positions
	if org := fr.fn.Origin(); org != nil {
		if os.Getenv("GOVC_DEBUG") != "" {
			fmt.Fprintln(os.Stderr, "origin names for", fr.fn.Name(), len(org.Blocks))
		}
		// structural correspondence: same blocks, same instruction kinds once debug refs are dropped
		strip := func(b *ssa.BasicBlock) []ssa.Instruction {
			var out []ssa.Instruction
			for _, in := range b.Instrs {
				if _, ok := in.(*ssa.DebugRef); !ok {
					out = append(out, in)
				}
			}
			return out
		}
		corr := map[ssa.Value]ssa.Value{}
		okAll := len(org.Blocks) == len(fr.fn.Blocks)
		if okAll {
			for i := range org.Blocks {
				oi, ni := strip(org.Blocks[i]), strip(fr.fn.Blocks[i])
				if len(oi) != len(ni) {
					okAll = false
					break
				}
				for j := range oi {
					if fmt.Sprintf("%T", oi[j]) != fmt.Sprintf("%T", ni[j]) {
						okAll = false
						break
					}
					if ov, ok := oi[j].(ssa.Value); ok {
						corr[ov] = ni[j].(ssa.Value)
					}
				}
			}
		}
		if os.Getenv("GOVC_DEBUG") != "" {
			fmt.Fprintln(os.Stderr, "correspondence", fr.fn.Name(), okAll, len(org.Blocks), len(fr.fn.Blocks), len(corr))
		}
		if okAll {
			for i, p := range org.Params {
				if i < len(fr.fn.Params) {
					corr[p] = fr.fn.Params[i]
				}
			}
			for _, b := range org.Blocks {
				for _, in := range b.Instrs {
					d, ok := in.(*ssa.DebugRef)
					if !ok || d.IsAddr {
						continue
					}
					id, ok := d.Expr.(*ast.Ident)
					if !ok {
						continue
					}
					v, ok := corr[d.X]
					if !ok {
						continue
					}
					if old, ok := fr.nameVals[id.Name]; ok && old != v {
						amb[id.Name] = true
					}
					fr.nameVals[id.Name] = v
				}
			}
		}
	}
	for n := range amb {
		delete(fr.nameVals, n)
	}
	// a loop-carried variable is named by its phi (the value at the loop header)
	for _, b := range fr.fn.Blocks {
		if fr.loopBody[b] == nil {
			continue // only loop headers
		}
		for _, in := range b.Instrs {
			if p, ok := in.(*ssa.Phi); ok && p.Comment != "" && p.Comment != "rangeindex" {
				if _, dup := fr.nameVals["phi:"+p.Comment]; dup {
					delete(fr.nameVals, p.Comment)
					continue
				}
				fr.nameVals["phi:"+p.Comment] = p
				fr.nameVals[p.Comment] = p
			}
		}
	}
}

func (fr *Frame) recordLocators() {
	u := fr.u
	if u.localLocs == nil {
		u.localLocs = map[string]map[string]string{}
	}
	k := fnKey(fr.fn)
	if _, done := u.localLocs[k]; !done {
		u.localLocs[k] = fr.localLocators()
	}
}

func (fr *Frame) runBlock(b *ssa.BasicBlock, entry *State) {
	u := fr.u
	var st *State
	isHeader := fr.loopBody[b] != nil
	var inEdges []*State
	var inPreds []*ssa.BasicBlock
	if b.Index == 0 {
		st = entry.clone()
	} else {
		for _, p := range b.Preds {
			if fr.backEdge[[2]int{p.Index, b.Index}] {
				continue
			}
			if e, ok := fr.edges[[2]int{p.Index, b.Index}]; ok {
				inEdges = append(inEdges, e)
				inPreds = append(inPreds, p)
			}
		}
		st = u.merge(inEdges, fmt.Sprintf("%s.b%d", fr.fn.Name(), b.Index))
	}
	if st.dead {
		fr.out[b] = st
		// still need values for phis etc.? unreachable blocks are skipped entirely
		return
	}
	// phis
	phiIn := func(phi *ssa.Phi) *Val {
		var alts []*Val
		var conds []string
		for i, p := range b.Preds {
			if fr.backEdge[[2]int{p.Index, b.Index}] {
				continue
			}
			e, ok := fr.edges[[2]int{p.Index, b.Index}]
			if !ok || e.dead || e.pc == "false" {
				continue
			}
			alts = append(alts, fr.val(phi.Edges[i]))
			conds = append(conds, e.pc)
		}
		return u.mergeVals(alts, conds, phi.Type(), "phi:"+phi.Name())
	}
	if isHeader {
		fr.enterLoop(b, st, phiIn)
	} else {
		for _, in := range b.Instrs {
			phi, ok := in.(*ssa.Phi)
			if !ok {
				break
			}
			fr.vals[phi] = phiIn(phi)
		}
	}
	for _, in := range b.Instrs {
		if _, ok := in.(*ssa.Phi); ok {
			continue
		}
		if st.dead {
			break
		}
		fr.step(b, in, st)
	}
	fr.out[b] = st
}

// orderCheck: leaving a range-over-map loop early without returning makes the outcome depend on the
// iteration order (class "order"; only generated in frame mode, i.e. for the purity properties)
func (fr *Frame) orderCheck(from, to *ssa.BasicBlock, e *State) {
	u := fr.u
	if !u.frameMode || fr.depth != 0 {
		return
	}
	for h, body := range fr.loopBody {
		if !body[from] || body[to] || from == h {
			continue
		}
		// is h a map-range loop?
		isMap := false
		for _, in := range h.Instrs {
			if nx, ok := in.(*ssa.Next); ok {
				if rg, ok := nx.Iter.(*ssa.Range); ok {
					if _, ok := rg.X.Type().Underlying().(*types.Map); ok {
						isMap = true
					}
				}
			}
		}
		if !isMap {
			continue
		}
		// a break jumps to the block where the loop's normal exit continues (the successor of the header
		// that lies outside the loop); returns and panics go elsewhere
		var done *ssa.BasicBlock
		for _, sc := range h.Succs {
			if !body[sc] {
				done = sc
			}
		}
		if done == nil || to != done {
			continue
		}
		u.oblige(fr, e, "order", fmt.Sprintf("loop%d", fr.loopOrd[h]), "false", token.NoPos, "a loop over a map is left early without returning: the outcome may depend on the iteration order")
	}
}

// mapOrderLoop: the loop with header h visits its elements in map iteration order: a range over a map, or a range
// over the slice returned by reflect.Value.MapKeys
func (fr *Frame) mapOrderLoop(h *ssa.BasicBlock) bool {
	for _, in := range h.Instrs {
		if nx, ok := in.(*ssa.Next); ok {
			if rg, ok := nx.Iter.(*ssa.Range); ok {
				if _, ok := rg.X.Type().Underlying().(*types.Map); ok {
					return true
				}
			}
		}
	}
	isKeys := func(v ssa.Value) bool {
		c, ok := v.(*ssa.Call)
		if !ok {
			return false
		}
		callee := c.Call.StaticCallee()
		return callee != nil && extName(callee) == "(reflect.Value).MapKeys"
	}
	hasIdx := false
	for _, in := range h.Instrs {
		if p, ok := in.(*ssa.Phi); ok && p.Comment == "rangeindex" {
			hasIdx = true
		}
	}
	if !hasIdx {
		return false
	}
	for b := range fr.loopBody[h] {
		for _, in := range b.Instrs {
			if ia, ok := in.(*ssa.IndexAddr); ok && isKeys(ia.X) {
				return true
			}
		}
	}
	return false
}

// orderVerdictCheck (frame mode): a function returns "no error" from inside a loop that runs in map iteration order
// while the same loop also has returns with an error: whether the error or the success is reached first depends on
// the order, so the verdict does.
func (fr *Frame) orderVerdictCheck(b *ssa.BasicBlock, ret *ssa.Return, st *State) {
	u := fr.u
	if !u.frameMode || fr.depth != 0 || len(ret.Results) == 0 {
		return
	}
	last := ret.Results[len(ret.Results)-1]
	if !isErrorType(last.Type()) {
		return
	}
	c, ok := last.(*ssa.Const)
	if !ok || !c.IsNil() {
		return
	}
	for h, body := range fr.loopBody {
		if !fr.mapOrderLoop(h) {
			continue
		}
		region := fr.earlyExitRegion(h)
		if !body[b] && !region[b] {
			continue
		}
		// does the loop also leave early with an error?
		errRet := false
		for ob := range region {
			if len(ob.Instrs) == 0 {
				continue
			}
			if r2, ok := ob.Instrs[len(ob.Instrs)-1].(*ssa.Return); ok && r2 != ret && len(r2.Results) > 0 {
				l2 := r2.Results[len(r2.Results)-1]
				if c2, isC := l2.(*ssa.Const); !isC || !c2.IsNil() {
					errRet = true
				}
			}
		}
		if errRet {
			u.oblige(fr, st, "order", fmt.Sprintf("verdict.loop%d", fr.loopOrd[h]), "false", ret.Pos(), "success is returned from inside a loop in map iteration order that also returns errors: the verdict may depend on the order")
		}
	}
}

// earlyExitRegion: the blocks through which the loop with header h is left other than by its normal exit (returns
// and the blocks that lead only to them)
func (fr *Frame) earlyExitRegion(h *ssa.BasicBlock) map[*ssa.BasicBlock]bool {
	body := fr.loopBody[h]
	var done *ssa.BasicBlock
	for _, sc := range h.Succs {
		if !body[sc] {
			done = sc
		}
	}
	region := map[*ssa.BasicBlock]bool{}
	var work []*ssa.BasicBlock
	for bb := range body {
		for _, sc := range bb.Succs {
			if !body[sc] && sc != done && !region[sc] {
				region[sc] = true
				work = append(work, sc)
			}
		}
	}
	for len(work) > 0 {
		x := work[len(work)-1]
		work = work[:len(work)-1]
		for _, sc := range x.Succs {
			if !body[sc] && sc != done && !region[sc] {
				region[sc] = true
				work = append(work, sc)
			}
		}
	}
	return region
}

func (fr *Frame) setEdge(from, to *ssa.BasicBlock, st *State, cond string) {
	u := fr.u
	e := st.clone()
	if cond != "true" {
		n := u.w.newConst(fmt.Sprintf("e:%s.%d-%d", fr.fn.Name(), from.Index, to.Index), "Bool")
		u.fact(eq(n, and(st.pc, cond)))
		e.pc = n
	}
	if fr.backEdge[[2]int{from.Index, to.Index}] {
		fr.closeLoop(from, to, e)
		return
	}
	fr.orderCheck(from, to, e)
	fr.edges[[2]int{from.Index, to.Index}] = e
	if fr.depth == 0 && e.pc != "true" && e.pc != "false" && !e.dead {
		// cover of the branch (thorough tier): which source line the edge leaves from
		pos := ""
		if n := len(from.Instrs); n > 0 {
			if p := from.Instrs[n-1].Pos(); p.IsValid() {
				pp := u.eng.fset.Position(p)
				pos = fmt.Sprintf("%s:%d", shortFile(pp.Filename), pp.Line)
			}
		}
		u.edgePcs = append(u.edgePcs, [2]string{e.pc, fmt.Sprintf("%s edge %d->%d at %s", u.name, from.Index, to.Index, pos)})
	}
}

// ---------------------------------------------------------------------------------------------
// Instructions
// ---------------------------------------------------------------------------------------------

func (fr *Frame) step(b *ssa.BasicBlock, in ssa.Instruction, st *State) {
	u := fr.u
	w := u.w
	switch x := in.(type) {
	case *ssa.DebugRef:
		return
	case *ssa.Alloc:
		el := x.Type().(*types.Pointer).Elem()
		r := u.allocRef(st, "alloc:"+x.Name())
		p := term(r, x.Type())
		a := u.addrOfPtr(p)
		u.storeAddr(st, a, w.zero(el))
		fr.vals[x] = p
	case *ssa.FieldAddr:
		base := fr.val(x.X)
		pt := x.X.Type().Underlying().(*types.Pointer)
		a := fr.derefBase(base, st, x.Pos(), fieldName(pt.Elem(), x.Field))
		na := *a
		na.Sels = append(append([]sel{}, a.Sels...), sel{field: x.Field, cont: pt.Elem()})
		na.Ty = x.Type()
		fr.vals[x] = &na
		fr.guardedAccess(&na, st, x.Pos())
	case *ssa.IndexAddr:
		idx := fr.val(x.Index).T
		switch xt := x.X.Type().Underlying().(type) {
		case *types.Slice:
			s := fr.val(x.X)
			u.oblige(fr, st, "idx", "", and(fmt.Sprintf("(<= 0 %s)", idx), fmt.Sprintf("(< %s (slen %s))", idx, s.T)), x.Pos(), "slice index in range")
			fr.vals[x] = &Val{K: vAddr, Heap: u.regA(xt.Elem()), Ref: fmt.Sprintf("(sdata %s)", s.T), Cell: types.NewArray(xt.Elem(), -1),
				Sels: []sel{{field: -1, idx: fmt.Sprintf("(+ (soff %s) %s)", s.T, idx)}}, Ty: x.Type()}
		case *types.Pointer:
			at := xt.Elem().Underlying().(*types.Array)
			base := fr.val(x.X)
			a := fr.derefBase(base, st, x.Pos(), "array")
			u.oblige(fr, st, "idx", "", and(fmt.Sprintf("(<= 0 %s)", idx), fmt.Sprintf("(< %s %d)", idx, at.Len())), x.Pos(), "array index in range")
			na := *a
			na.Sels = append(append([]sel{}, a.Sels...), sel{field: -1, idx: idx})
			na.Ty = x.Type()
			fr.vals[x] = &na
		default:
			u.unsupportedf("IndexAddr on %v", x.X.Type())
		}
	case *ssa.UnOp:
		fr.vals[x] = fr.unop(x, st)
	case *ssa.Store:
		a := fr.val(x.Addr)
		v := fr.val(x.Val)
		addr := fr.derefBase(a, st, x.Pos(), "store")
		fr.frameCheck(st, addr, x.Pos())
		u.storeAddr(st, addr, fr.asTerm(v, st))
	case *ssa.BinOp:
		fr.vals[x] = fr.binop(x, st)
	case *ssa.Extract:
		t := fr.val(x.Tuple)
		if t.K != vTuple {
			u.unsupportedf("extract from non-tuple")
		}
		fr.vals[x] = t.Elems[x.Index]
	case *ssa.MakeInterface:
		fr.vals[x] = fr.makeIface(fr.val(x.X), x.X.Type(), x.Type(), st)
	case *ssa.ChangeInterface:
		v := fr.val(x.X)
		fr.vals[x] = term(v.T, x.Type())
	case *ssa.ChangeType:
		v := fr.val(x.X)
		nv := *v
		nv.Ty = x.Type()
		fr.vals[x] = &nv
	case *ssa.Convert:
		fr.vals[x] = fr.convert(fr.val(x.X), x.X.Type(), x.Type(), st)
	case *ssa.TypeAssert:
		fr.vals[x] = fr.typeAssert(x, st)
	case *ssa.Field:
		v := fr.val(x.X)
		fr.vals[x] = term(w.fieldSel(x.X.Type(), x.Field, fr.asTerm(v, st)), x.Type())
	case *ssa.Index:
		v := fr.val(x.X)
		idx := fr.val(x.Index).T
		switch xt := x.X.Type().Underlying().(type) {
		case *types.Array:
			u.oblige(fr, st, "idx", "", and(fmt.Sprintf("(<= 0 %s)", idx), fmt.Sprintf("(< %s %d)", idx, xt.Len())), x.Pos(), "array index")
			fr.vals[x] = term(fmt.Sprintf("(select %s %s)", v.T, idx), x.Type())
		default:
			u.unsupportedf("Index on %v", x.X.Type())
		}
	case *ssa.Lookup:
		fr.vals[x] = fr.lookup(x, st)
	case *ssa.MapUpdate:
		fr.mapUpdate(x, st)
	case *ssa.MakeMap:
		mt := x.Type().Underlying().(*types.Map)
		fr.vals[x] = term(u.newMap(st, mt, "map:"+x.Name()), x.Type())
	case *ssa.MakeSlice:
		stt := x.Type().Underlying().(*types.Slice)
		ln := fr.val(x.Len).T
		cp := fr.val(x.Cap).T
		u.oblige(fr, st, "idx", "makeslice", and(fmt.Sprintf("(<= 0 %s)", ln), fmt.Sprintf("(<= %s %s)", ln, cp)), x.Pos(), "makeslice: len out of range")
		r := u.allocRef(st, "mkslice:"+x.Name())
		key := u.regA(stt.Elem())
		h := u.heapOf(st, key)
		st.heap[key] = u.nameHeap(key, fmt.Sprintf("(store %s %s %s)", h, r, w.constArray(fmt.Sprintf("(Array Int %s)", w.sortOf(stt.Elem())), w.sortOf(stt.Elem()), w.zero(stt.Elem()))))
		fr.vals[x] = term(fmt.Sprintf("(mkSlice %s 0 %s %s)", r, ln, cp), x.Type())
	case *ssa.MakeChan:
		r := u.allocRef(st, "chan:"+x.Name())
		fr.vals[x] = term(r, x.Type())
		// a new channel is open and nothing has been sent on it
		u.ghostSort["closed"] = "(Array Ref Bool)"
		u.fact(not(fmt.Sprintf("(select %s %s)", u.ghostOf(st, "closed"), r)))
		u.fact(fmt.Sprintf("(= (select %s %s) 0)", u.ghostOf(st, "sends"), r))
	case *ssa.MakeClosure:
		f := x.Fn.(*ssa.Function)
		var binds []*Val
		for _, bv := range x.Bindings {
			binds = append(binds, fr.val(bv))
		}
		r := u.allocRef(st, "closure:"+f.Name())
		fr.vals[x] = &Val{K: vFunc, Fn: &fnRef{fn: f, binds: binds}, Ty: x.Type(), T: r}
	case *ssa.Slice:
		fr.vals[x] = fr.sliceOp(x, st)
	case *ssa.Call:
		fr.vals[x] = fr.call(x, x.Common(), st)
	case *ssa.Range:
		fr.vals[x] = fr.rangeOp(x, st)
	case *ssa.Next:
		fr.vals[x] = fr.nextOp(x, st)
	case *ssa.If:
		c := fr.val(x.Cond).T
		fr.setEdge(b, b.Succs[0], st, c)
		fr.setEdge(b, b.Succs[1], st, not(c))
	case *ssa.Jump:
		fr.setEdge(b, b.Succs[0], st, "true")
	case *ssa.Return:
		fr.runDefersIfAny(st)
		fr.orderVerdictCheck(b, x, st)
		var vs []*Val
		for _, r := range x.Results {
			rv := fr.val(r)
			if rv.K == vFunc {
				rv = term(rv.T, rv.Ty)
			}
			vs = append(vs, rv)
		}
		fr.rets = append(fr.rets, retInfo{st: st.clone(), vals: vs})
		if p := x.Pos(); p.IsValid() {
			pp := u.eng.fset.Position(p)
			fr.retPos = append(fr.retPos, fmt.Sprintf("%s:%d", shortFile(pp.Filename), pp.Line))
		} else {
			fr.retPos = append(fr.retPos, "")
		}
	case *ssa.Panic:
		fr.explicitPanic(x, st)
	case *ssa.Defer:
		fr.defers = append(fr.defers, x)
		if fr.loopDepthOf(b) > 0 {
			u.unsupportedf("defer inside a loop")
		}
		// record the path condition under which the defer was registered
		fr.deferConds = append(fr.deferConds, st.pc)
	case *ssa.RunDefers:
		fr.runDefers(st)
	case *ssa.Go:
		fr.goStmt(x, st)
	case *ssa.Send:
		fr.sendStmt(x, st)
	case *ssa.Select:
		fr.vals[x] = fr.selectStmt(x, st)
	case *ssa.SliceToArrayPointer, *ssa.MultiConvert:
		u.unsupportedf("%T", in)
	default:
		u.unsupportedf("instruction %T", in)
	}
}

func fieldName(t types.Type, i int) string {
	if st, ok := t.Underlying().(*types.Struct); ok && i < st.NumFields() {
		return st.Field(i).Name()
	}
	return fmt.Sprintf("f%d", i)
}

func (fr *Frame) loopDepthOf(b *ssa.BasicBlock) int {
	n := 0
	for _, body := range fr.loopBody {
		if body[b] {
			n++
		}
	}
	return n
}

// derefBase: a pointer value about to be dereferenced; emits the nil obligation for real pointers.
func (fr *Frame) derefBase(p *Val, st *State, pos token.Pos, what string) *Val {
	u := fr.u
	if p.K == vAddr {
		return p
	}
	if p.K != vTerm {
		u.unsupportedf("dereference of %v", p.K)
	}
	if !fr.knownNonNil(p.T) {
		u.oblige(fr, st, "nil", what, fmt.Sprintf("(distinct %s nil)", p.T), pos, "nil pointer dereference")
	}
	a := u.addrOfPtr(p)
	fr.assumeCellInv(a, st)
	return a
}

// assumeCellInv: the declared type invariant holds for cells that existed before the call
func (fr *Frame) assumeCellInv(a *Val, st *State) {
	u := fr.u
	if a.Cell == nil {
		return
	}
	n, ok := a.Cell.(*types.Named)
	if !ok || n.Obj().Pkg() == nil {
		return
	}
	key := n.Obj().Pkg().Name() + "." + n.Obj().Name()
	invs := u.eng.contracts.invs[key]
	if len(invs) == 0 {
		return
	}
	h := u.heapOf(st, a.Heap)
	if len(a.Sels) != 0 && !(strings.HasPrefix(h, "|H0:") || strings.HasPrefix(h, "|Hh:")) {
		// a field of the cell is read through a heap this function has written itself: the invariant of the
		// cell is not assumed there
		return
	}
	ck := "inv:" + h + "@" + a.Ref
	if u.frameDone[ck] {
		return
	}
	u.frameDone[ck] = true
	cell := term(u.sel1(h, a.Ref), a.Cell)
	cell.Ref = a.Ref // the address of the cell (for ghost state keyed by address, e.g. signalled(x))
	u.assumeInv(fr, invs, cell, st, fmt.Sprintf("(and (distinct %s nil) (< (birth %s) %s))", a.Ref, a.Ref, u.entryNow))
}

func (u *Unit) assumeInv(fr *Frame, invs []*TypeInv, v *Val, st *State, guard string) {
	if u.noInv {
		return
	}
	for _, ti := range invs {
		if u.skipInv[ti.TypeName] {
			continue
		}
		func() {
			defer func() {
				if r := recover(); r != nil {
					if ee, ok := r.(evalError); ok {
						u.note("type invariant could not be evaluated: " + ti.TypeName + ": " + ee.msg)
						return
					}
					panic(r)
				}
			}()
			env := &Env{vars: map[string]*Val{ti.Var: v}, pkg: u.eng.pkgByName(ti.Pkg)}
			f := fr.evalBool(ti.Body, env, st, st)
			if strings.Contains(f, "(forall") && !u.quantOK {
				return
			}
			u.usedInvs[ti.TypeName+": "+ti.Body.src] = true
			u.fact(implies(guard, f))
		}()
	}
}

// invsFor: invariants declared for a (named) struct type
func (u *Unit) invsFor(t types.Type) []*TypeInv {
	n, ok := t.(*types.Named)
	if !ok || n.Obj().Pkg() == nil {
		return nil
	}
	return u.eng.contracts.invs[n.Obj().Pkg().Name()+"."+n.Obj().Name()]
}

// nonnilElem: values of this type read from pre-existing containers are declared non-nil
func (u *Unit) nonnilElem(t types.Type) bool {
	if u.noInv {
		return false
	}
	for k := range u.eng.contracts.nonnil {
		parts := strings.SplitN(k, "::", 2)
		pkg := u.eng.pkgByName(parts[0])
		if pkg == nil {
			continue
		}
		if ty, _ := u.eng.resolveTypeQuiet(pkg, parts[1]); ty != nil && types.Identical(ty, t) {
			return true
		}
	}
	return false
}

func (u *Unit) nonnilFact(t string, ty types.Type) string {
	if u.w.sortOf(ty) == "Iface" {
		return fmt.Sprintf("(distinct (ityp %s) T_nil)", t)
	}
	return fmt.Sprintf("(distinct %s nil)", t)
}

func (fr *Frame) knownNonNil(t string) bool {
	return strings.HasPrefix(t, "|alloc:") || strings.HasPrefix(t, "|global:") || strings.HasPrefix(t, "|mat:")
}

// asTerm turns any value into an SMT term (materialising addresses when they escape)
func (fr *Frame) asTerm(v *Val, st *State) string {
	u := fr.u
	switch v.K {
	case vTerm:
		return v.T
	case vFunc:
		return v.T
	case vAddr:
		return fr.materialize(v, st).T
	}
	u.unsupportedf("value of kind %d used as term", v.K)
	return ""
}

// materialize: an interior pointer escapes; model it as a fresh cell holding a copy.
func (fr *Frame) materialize(a *Val, st *State) *Val {
	u := fr.u
	if len(a.Sels) == 0 {
		return term(a.Ref, a.Ty)
	}
	if m, ok := fr.mats[a]; ok {
		return m
	}
	el := a.Ty.Underlying().(*types.Pointer).Elem()
	cur := u.loadAddr(st, a)
	r := u.w.newConst("mat:", "Ref")
	u.fact(fmt.Sprintf("(distinct %s nil)", r))
	// the copy is "old" memory if the base is: inherit birth from the base reference
	u.fact(eq(fmt.Sprintf("(birth %s)", r), fmt.Sprintf("(birth %s)", a.Ref)))
	p := term(r, a.Ty)
	na := u.addrOfPtr(p)
	u.storeAddr(st, na, cur)
	_ = el
	u.note("materialized interior pointer (copy-in; callee writes through it are not copied back)")
	if fr.mats == nil {
		fr.mats = map[*Val]*Val{}
	}
	fr.mats[a] = p
	return p
}

func (fr *Frame) unop(x *ssa.UnOp, st *State) *Val {
	u := fr.u
	v := fr.val(x.X)
	switch x.Op {
	case token.MUL:
		a := fr.derefBase(v, st, x.Pos(), "load")
		t := u.loadAddr(st, a)
		u.closedPre(a, x.Type())
		res := fr.named(x, t, x.Type())
		if strings.HasPrefix(a.Heap, "A:") && u.nonnilElem(x.Type()) {
			u.fact(implies(fmt.Sprintf("(< (birth %s) %s)", a.Ref, u.entryNow), u.nonnilFact(res.T, x.Type())))
		}
		for _, f := range u.wfFacts(st, res.T, x.Type(), 0) {
			u.fact(f)
		}
		return res
	case token.NOT:
		return term(not(v.T), x.Type())
	case token.SUB:
		if b, ok := x.Type().Underlying().(*types.Basic); ok && b.Info()&types.IsFloat != 0 {
			return term(fmt.Sprintf("(fp.neg %s)", v.T), x.Type())
		} else if ok {
			return fr.named(x, wrapInt(fmt.Sprintf("(- %s)", v.T), b), x.Type())
		}
	case token.ARROW:
		return fr.recvOp(x, v, st)
	case token.XOR:
		r := u.w.newConst("xor:"+x.Name(), "Int")
		for _, f := range u.wfFacts(st, r, x.Type(), 0) {
			u.fact(f)
		}
		return term(r, x.Type())
	}
	u.unsupportedf("unop %v", x.Op)
	return nil
}

// named introduces a constant for a term to keep later terms small
func (fr *Frame) named(v ssa.Value, t string, ty types.Type) *Val {
	u := fr.u
	if isSimpleTerm(t) {
		return term(t, ty)
	}
	n := u.w.newConst(fr.fn.Name()+"."+v.Name(), u.w.sortOf(ty))
	u.fact(eq(n, t))
	return term(n, ty)
}

func isFloat(t types.Type) bool {
	b, ok := t.Underlying().(*types.Basic)
	return ok && b.Info()&types.IsFloat != 0
}
func isString(t types.Type) bool {
	b, ok := t.Underlying().(*types.Basic)
	return ok && b.Info()&types.IsString != 0
}
func isInteger(t types.Type) bool {
	b, ok := t.Underlying().(*types.Basic)
	return ok && b.Info()&types.IsInteger != 0
}
func isIface(t types.Type) bool {
	_, ok := t.Underlying().(*types.Interface)
	return ok
}

func (fr *Frame) binop(x *ssa.BinOp, st *State) *Val {
	u := fr.u
	a, b := fr.val(x.X), fr.val(x.Y)
	at := fr.asTerm(a, st)
	bt := fr.asTerm(b, st)
	xt := x.X.Type()
	switch x.Op {
	case token.EQL, token.NEQ:
		var e string
		switch {
		case isFloat(xt):
			e = fmt.Sprintf("(fp.eq %s %s)", at, bt)
		case isIface(xt):
			if cb, ok := x.Y.(*ssa.Const); ok && cb.Value == nil {
				e = fmt.Sprintf("(= (ityp %s) T_nil)", at)
			} else if ca, ok := x.X.(*ssa.Const); ok && ca.Value == nil {
				e = fmt.Sprintf("(= (ityp %s) T_nil)", bt)
			} else {
				u.oblige(fr, st, "ifaceeq", "", implies(and(eq(fmt.Sprintf("(ityp %s)", at), fmt.Sprintf("(ityp %s)", bt)), not(fmt.Sprintf("(= (ityp %s) T_nil)", at))),
					fmt.Sprintf("(comparable (ityp %s))", at)), x.Pos(), "comparing uncomparable dynamic types panics")
				e = eq(at, bt)
			}
		default:
			e = eq(at, bt)
		}
		if x.Op == token.NEQ {
			e = not(e)
		}
		return term(e, x.Type())
	case token.LSS, token.LEQ, token.GTR, token.GEQ:
		ops := map[token.Token]string{token.LSS: "<", token.LEQ: "<=", token.GTR: ">", token.GEQ: ">="}
		fops := map[token.Token]string{token.LSS: "fp.lt", token.LEQ: "fp.leq", token.GTR: "fp.gt", token.GEQ: "fp.geq"}
		switch {
		case isFloat(xt):
			return term(fmt.Sprintf("(%s %s %s)", fops[x.Op], at, bt), x.Type())
		case isString(xt):
			u.w.declFun("strlt", []string{"Str", "Str"}, "Bool")
			var e string
			switch x.Op {
			case token.LSS:
				e = fmt.Sprintf("(strlt %s %s)", at, bt)
			case token.GTR:
				e = fmt.Sprintf("(strlt %s %s)", bt, at)
			case token.LEQ:
				e = not(fmt.Sprintf("(strlt %s %s)", bt, at))
			default:
				e = not(fmt.Sprintf("(strlt %s %s)", at, bt))
			}
			return term(e, x.Type())
		default:
			return term(fmt.Sprintf("(%s %s %s)", ops[x.Op], at, bt), x.Type())
		}
	case token.ADD, token.SUB, token.MUL, token.QUO, token.REM:
		switch {
		case isFloat(xt):
			fop := map[token.Token]string{token.ADD: "fp.add", token.SUB: "fp.sub", token.MUL: "fp.mul", token.QUO: "fp.div"}[x.Op]
			if fop == "" {
				u.unsupportedf("float op %v", x.Op)
			}
			return fr.named(x, fmt.Sprintf("(%s RNE %s %s)", fop, at, bt), x.Type())
		case isString(xt):
			u.w.declFun("strcat", []string{"Str", "Str"}, "Str")
			r := fr.named(x, fmt.Sprintf("(strcat %s %s)", at, bt), x.Type())
			u.fact(eq(fmt.Sprintf("(strlen %s)", r.T), fmt.Sprintf("(+ (strlen %s) (strlen %s))", at, bt)))
			return r
		case isInteger(xt):
			bt0 := xt.Underlying().(*types.Basic)
			var exact string
			switch x.Op {
			case token.ADD:
				exact = fmt.Sprintf("(+ %s %s)", at, bt)
			case token.SUB:
				exact = fmt.Sprintf("(- %s %s)", at, bt)
			case token.MUL:
				exact = fmt.Sprintf("(* %s %s)", at, bt)
			case token.QUO, token.REM:
				u.oblige(fr, st, "div", "", fmt.Sprintf("(distinct %s 0)", bt), x.Pos(), "integer division by zero")
				// Go truncates toward zero
				q := fmt.Sprintf("(ite (>= %s 0) (ite (> %s 0) (div %s %s) (- (div %s (- %s)))) (ite (> %s 0) (- (div (- %s) %s)) (div (- %s) (- %s))))", at, bt, at, bt, at, bt, bt, at, bt, at, bt)
				if x.Op == token.QUO {
					exact = q
				} else {
					exact = fmt.Sprintf("(- %s (* %s %s))", at, bt, q)
				}
			}
			if u.arithChecked && (x.Op == token.ADD || x.Op == token.SUB || x.Op == token.MUL) {
				lo, hi := intRange(bt0)
				u.oblige(fr, st, "ovf", "", and(fmt.Sprintf("(<= %s %s)", lo, exact), fmt.Sprintf("(<= %s %s)", exact, hi)), x.Pos(), "integer overflow")
				return fr.named(x, exact, x.Type())
			}
			return fr.named(x, wrapInt(exact, bt0), x.Type())
		}
	case token.LAND, token.LOR:
	case token.AND, token.OR, token.XOR, token.SHL, token.SHR, token.AND_NOT:
		if x.Type().Underlying().(*types.Basic).Info()&types.IsBoolean != 0 {
			break
		}
		r := u.w.newConst("bitop:"+x.Name(), "Int")
		for _, f := range u.wfFacts(st, r, x.Type(), 0) {
			u.fact(f)
		}
		u.note("bit operation treated as an unconstrained value")
		return term(r, x.Type())
	}
	u.unsupportedf("binop %v on %v", x.Op, xt)
	return nil
}

func (fr *Frame) makeIface(v *Val, from types.Type, to types.Type, st *State) *Val {
	u := fr.u
	w := u.w
	if isIface(from) {
		return term(v.T, to)
	}
	vt := fr.asTerm(v, st)
	srt := w.sortOf(from)
	bx, ub := w.boxFn(srt)
	boxed := fmt.Sprintf("(%s %s)", bx, vt)
	u.fact(eq(fmt.Sprintf("(%s %s)", ub, boxed), vt))
	res := fmt.Sprintf("(mkIface %s %s)", w.tag(from), boxed)
	if pt, isPtr := from.(*types.Pointer); isPtr && st != nil {
		if _, isStruct := pt.Elem().Underlying().(*types.Struct); isStruct && v.K == vTerm {
			if cet := u.eng.ceType(); cet == nil || !types.Identical(pt.Elem(), cet) {
				a := u.addrOfPtr(v)
				fr.errorChainFacts(res, u.loadAddr(st, a), pt.Elem())
			}
		}
	} else {
		fr.errorChainFacts(res, vt, from)
	}
	return term(res, to)
}

// errorChainFacts: what errors.As(*ConstraintError) finds in an error value of one of the SDK's own error
// struct types: the constraint error of its Cause (these types unwrap to Cause), nothing for types without one.
func (fr *Frame) errorChainFacts(iface string, v string, from types.Type) {
	u := fr.u
	n, ok := from.(*types.Named)
	if !ok || n.Obj().Pkg() == nil || !isOwnPkg(n.Obj().Pkg().Path()) {
		return
	}
	st, ok := n.Underlying().(*types.Struct)
	if !ok {
		return
	}
	if mset := types.NewMethodSet(from); mset.Lookup(n.Obj().Pkg(), "Error") == nil {
		return
	}
	if cet := u.eng.ceType(); cet != nil && types.Identical(from, cet) {
		return
	}
	okf := u.fn("as_ce_ok", []string{"Iface"}, "Bool")
	valf := u.fn("as_ce_val", []string{"Iface"}, "Ref")
	for i := 0; i < st.NumFields(); i++ {
		if st.Field(i).Name() == "Cause" && isErrorType(st.Field(i).Type()) {
			c := u.w.fieldSel(from, i, v)
			u.fact(eq(app(okf, iface), app(okf, c)))
			u.fact(implies(app(okf, c), eq(app(valf, iface), app(valf, c))))
			fr.ceOfTerm(c)
			u.assume["the SDK's own error struct types unwrap to their Cause field (read from their Unwrap methods, not re-verified per call)"] = true
			return
		}
	}
	u.fact(not(app(okf, iface)))
}

func (fr *Frame) typeAssert(x *ssa.TypeAssert, st *State) *Val {
	u := fr.u
	w := u.w
	v := fr.val(x.X)
	var ok string
	var res *Val
	if isIface(x.AssertedType) {
		it := x.AssertedType.Underlying().(*types.Interface)
		if it.NumMethods() == 0 {
			ok = fmt.Sprintf("(distinct (ityp %s) T_nil)", v.T)
		} else {
			ok = and(fmt.Sprintf("(distinct (ityp %s) T_nil)", v.T), fmt.Sprintf("(%s (ityp %s))", u.implementsFn(x.AssertedType), v.T))
		}
		res = term(v.T, x.AssertedType)
	} else {
		tg := w.tag(x.AssertedType)
		ok = fmt.Sprintf("(= (ityp %s) %s)", v.T, tg)
		srt := w.sortOf(x.AssertedType)
		bx, ub := w.boxFn(srt)
		un := fmt.Sprintf("(%s (ival %s))", ub, v.T)
		u.fact(implies(ok, eq(fmt.Sprintf("(%s %s)", bx, un), fmt.Sprintf("(ival %s)", v.T))))
		rv := fr.named(x, un, x.AssertedType)
		for _, f := range u.wfFacts(st, rv.T, x.AssertedType, 0) {
			u.fact(implies(ok, f))
		}
		if pt, isP := x.AssertedType.Underlying().(*types.Pointer); isP {
			if n, isN := pt.Elem().(*types.Named); isN && n.Obj().Pkg() != nil && isOwnPkg(n.Obj().Pkg().Path()) {
				// assumption: no typed-nil pointers to SDK types inside interface values
				u.fact(implies(ok, fmt.Sprintf("(distinct %s nil)", rv.T)))
				u.assume["interface values never hold typed-nil pointers to SDK struct types"] = true
			}
		}
		res = rv
	}
	if x.CommaOk {
		okc := u.w.newConst("ok:"+x.Name(), "Bool")
		u.fact(eq(okc, ok))
		// on failure the value is the zero value
		zv := ite(okc, res.T, w.zero(x.AssertedType))
		return &Val{K: vTuple, Elems: []*Val{fr.named(x, zv, x.AssertedType), term(okc, types.Typ[types.Bool])}}
	}
	u.oblige(fr, st, "assert", "", ok, x.Pos(), fmt.Sprintf("type assertion to %s", w.typeStr(x.AssertedType)))
	return res
}

// implementsFn: predicate over tags "dynamic type implements interface I" with ground facts for known tags
func (u *Unit) implementsFn(it types.Type) string {
	n := quote("implements:" + u.w.typeStr(it))
	u.w.declFun(n, []string{"TypeTag"}, "Bool")
	u.implIfaces[n] = it
	return n
}

func (fr *Frame) convert(v *Val, from, to types.Type, st *State) *Val {
	u := fr.u
	fb, fok := from.Underlying().(*types.Basic)
	tb, tok := to.Underlying().(*types.Basic)
	if fok && tok {
		switch {
		case fb.Info()&types.IsInteger != 0 && tb.Info()&types.IsInteger != 0:
			flo, fhi := intRange(fb)
			tlo, thi := intRange(tb)
			if rangeWithin(flo, fhi, tlo, thi) {
				return term(v.T, to)
			}
			n := u.w.newConst("conv", "Int")
			u.fact(eq(n, wrapInt(v.T, tb)))
			return term(n, to)
		case fb.Info()&types.IsInteger != 0 && tb.Info()&types.IsFloat != 0:
			return term(u.intToFloat(v.T, fb, tb), to)
		case fb.Info()&types.IsFloat != 0 && tb.Info()&types.IsInteger != 0:
			return term(u.floatToInt(v.T, fb, tb, st), to)
		case fb.Info()&types.IsFloat != 0 && tb.Info()&types.IsFloat != 0:
			if fb.Kind() == tb.Kind() {
				return term(v.T, to)
			}
			if tb.Kind() == types.Float64 {
				return term(fmt.Sprintf("((_ to_fp 11 53) RNE %s)", v.T), to)
			}
			return term(fmt.Sprintf("((_ to_fp 8 24) RNE %s)", v.T), to)
		case fb.Info()&types.IsString != 0 && tb.Info()&types.IsString != 0:
			return term(v.T, to)
		case fb.Info()&types.IsInteger != 0 && tb.Info()&types.IsString != 0:
			u.w.declFun("runeToStr", []string{"Int"}, "Str")
			return term(fmt.Sprintf("(runeToStr %s)", v.T), to)
		}
	}
	// string <-> []byte / []rune : opaque
	if isString(from) {
		if stt, ok := to.Underlying().(*types.Slice); ok {
			n := u.w.newConst("byteslen", "Int")
			u.fact(and(fmt.Sprintf("(>= %s 0)", n), fmt.Sprintf("(< %s 281474976710656)", n)))
			r, _ := u.freshSlice(st, stt.Elem(), n, "bytes")
			return term(r, to)
		}
	}
	if isString(to) {
		if _, ok := from.Underlying().(*types.Slice); ok {
			r := u.w.newConst("strOfBytes", "Str")
			u.fact(fmt.Sprintf("(>= (strlen %s) 0)", r))
			return term(r, to)
		}
	}
	if u.w.sortOf(from) == u.w.sortOf(to) {
		nv := *v
		nv.Ty = to
		return &nv
	}
	u.unsupportedf("convert %v -> %v", from, to)
	return nil
}

func rangeWithin(flo, fhi, tlo, thi string) bool {
	ord := map[string]int{"(- 9223372036854775808)": -64, "(- 2147483648)": -32, "(- 32768)": -16, "(- 128)": -8, "0": 0,
		"127": 7, "255": 8, "32767": 15, "65535": 16, "2147483647": 31, "4294967295": 32, "9223372036854775807": 63, "18446744073709551615": 64}
	return ord[tlo] <= ord[flo] && ord[fhi] <= ord[thi]
}

// int <-> float conversions are uninterpreted functions constrained by the target range only
// (solvers do not decide queries mixing Int, Real and FloatingPoint in useful time; stated as assumption).
func (u *Unit) intToFloat(t string, fb, tb *types.Basic) string {
	if isNumeric(t) || strings.HasPrefix(t, "(- ") && isNumeric(strings.TrimSuffix(strings.TrimPrefix(t, "(- "), ")")) {
		var f float64
		if strings.HasPrefix(t, "(- ") {
			fmt.Sscanf(strings.TrimSuffix(strings.TrimPrefix(t, "(- "), ")"), "%g", &f)
			f = -f
		} else {
			fmt.Sscanf(t, "%g", &f)
		}
		if tb.Kind() == types.Float32 {
			return f32Lit(float32(f))
		}
		return f64Lit(f)
	}
	u.assume["int<->float conversions are uninterpreted functions (i2f64/i2f32/f2i_T) constrained by the target range only; int literals convert exactly"] = true
	if tb.Kind() == types.Float32 {
		u.w.declFun("i2f32", []string{"Int"}, F32)
		return fmt.Sprintf("(i2f32 %s)", t)
	}
	u.w.declFun("i2f64", []string{"Int"}, F64)
	return fmt.Sprintf("(i2f64 %s)", t)
}

func (u *Unit) floatToInt(t string, fb, tb *types.Basic, st *State) string {
	lo, hi := intRange(tb)
	u.assume["int<->float conversions are uninterpreted functions (i2f64/i2f32/f2i_T) constrained by the target range only; int literals convert exactly"] = true
	fs := F64
	nm := "f64to" + tb.Name()
	if fb.Kind() == types.Float32 {
		fs = F32
		nm = "f32to" + tb.Name()
	}
	u.w.declFun(nm, []string{fs}, "Int")
	r := fmt.Sprintf("(%s %s)", nm, t)
	ck := "f2i:" + r
	if !u.frameDone[ck] {
		u.frameDone[ck] = true
		u.fact(and(fmt.Sprintf("(<= %s %s)", lo, r), fmt.Sprintf("(<= %s %s)", r, hi)))
	}
	return r
}

func (fr *Frame) explicitPanic(x *ssa.Panic, st *State) {
	u := fr.u
	if fr.recovering() {
		fr.panicked = append(fr.panicked, st.clone())
		st.dead = true
		return
	}
	// exceptional postconditions of the unit: what a caller that recovers the panic may rely on
	top := fr
	for top.parent != nil {
		top = top.parent
	}
	if top.contract != nil && len(top.contract.OnPanic) > 0 && u.quantOK {
		env := top.baseEnv()
		for i, en := range top.contract.OnPanic {
			g, why := func() (g string, why string) {
				defer func() {
					if r := recover(); r != nil {
						if ee, ok := r.(evalError); ok {
							g, why = "false", " [clause cannot be evaluated against this code: "+ee.msg+"]"
							return
						}
						panic(r)
					}
				}()
				return top.evalBool(en, env, st, top.entry), ""
			}()
			u.oblige(fr, st.clone(), "ppost", fmt.Sprintf("%d", i+1), g, x.Pos(), "onpanic "+en.src+why)
		}
	}
	u.oblige(fr, st, "panic", "", "false", x.Pos(), "explicit panic reachable")
	st.dead = true
}
