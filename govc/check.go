package main

import (
	"encoding/json"
	"flag"
	"fmt"
	"os"
	"os/exec"
	"path/filepath"
	"regexp"
	"sort"
	"strconv"
	"strings"
	"sync"
	"time"

	"golang.org/x/tools/go/ssa"
)

// ---------------------------------------------------------------------------------------------
// Property checks: which functions/obligations decide a property, claims, known findings, evidence
// ---------------------------------------------------------------------------------------------

type PropSpec struct {
	ID             string     `json:"id"`
	Module         string     `json:"module"` // "" = root module (schema, atp); "codegen" = cmd/arcaflow-codegen
	Entries        []PropFunc `json:"entries"`
	Lemmas         []string   `json:"lemmas"`
	Note           string     `json:"note"`
	Scope          string     `json:"scope"` // what part of the property statement is decided
	NotCovered     []string   `json:"not_covered"`
	Bounded        []string   `json:"bounded"` // names of bounded stand-ins (run by the thorough tier)
	Exclude        []string   `json:"exclude_classes"`
	NoInv          bool       `json:"no_invariants"`
	SkipInv        []string   `json:"skip_invariants"`
	Include        []string   `json:"include"`    // entries of these properties are checked under this property as well
	Regression     []RegTest  `json:"regression"` // replays of recorded findings / repaired defects (thorough tier)
	standinReports []map[string]any
	regReports     []map[string]any
	confirmed2     int
	deadRets       []string
	deadEdges      []string
}

// RegTest: a replay against the real code. expect "fail": a recorded known finding (the replay fails while the defect
// is present; a pass is reported as a stale finding, never as a violation). expect "pass": a repaired defect (a failure
// means the defect is back: violation).
type RegTest struct {
	Name   string `json:"name"`
	Cmd    string `json:"cmd"` // run with bash in /verif; $REPO is the repository under test
	Expect string `json:"expect"`
}

type PropFunc struct {
	Func      string   `json:"func"`               // function key or prefix* pattern
	Mode      string   `json:"mode"`               // contract | sweep | frame
	Classes   []string `json:"classes"`            // obligation classes that count for this property (empty: all)
	NoInv     bool     `json:"no_invariants"`      // do not assume the declared type invariants (C10: well-formedness is the question)
	KeepInv   bool     `json:"keep_invariants"`    // assume all declared type invariants for this entry even if the property skips some
	NoLoopInv bool     `json:"no_loop_invariants"` // do not use the declared loop invariants of this unit (they need a scope / quantified facts this mode does not have): neither assumed nor checked
}

type Finding struct {
	Kind       string // finding | fixed
	Property   string
	Obligation string
	Class      string // contract-language predicate over the function's parameters: the recorded failing inputs
	What       string
	Raw        string
}

func loadFindings(path string) []Finding {
	data, err := os.ReadFile(path)
	if err != nil {
		return nil
	}
	var out []Finding
	for _, ln := range strings.Split(string(data), "\n") {
		ln = strings.TrimSpace(ln)
		if ln == "" || strings.HasPrefix(ln, "#") {
			continue
		}
		f := Finding{Raw: ln}
		switch {
		case strings.HasPrefix(ln, "fixed:"):
			f.Kind = "fixed"
			out = append(out, f)
			continue
		case strings.HasPrefix(ln, "finding:"):
			f.Kind = "finding"
		default:
			continue
		}
		body := strings.TrimSpace(strings.TrimPrefix(ln, "finding:"))
		what := ""
		if i := strings.Index(body, " :: "); i >= 0 {
			what = strings.TrimSpace(body[i+4:])
			body = body[:i]
		}
		f.What = what
		// class=... may contain spaces: it extends to the end
		if i := strings.Index(body, " class="); i >= 0 {
			f.Class = strings.TrimSpace(body[i+7:])
			body = body[:i]
		}
		for _, kv := range strings.Fields(body) {
			if strings.HasPrefix(kv, "property=") {
				f.Property = strings.TrimPrefix(kv, "property=")
			}
			if strings.HasPrefix(kv, "obligation=") {
				f.Obligation = strings.TrimPrefix(kv, "obligation=")
			}
		}
		if f.Class == "-" {
			f.Class = ""
		}
		out = append(out, f)
	}
	return out
}

// allProved: no obligation of the unit failed (after a failed obligation the rest of the path is assumed away by
// design, so reachability says nothing there - the failure itself is reported)
func allProved(obls []*Obl) bool {
	for _, o := range obls {
		if o.Status != "proved" {
			return false
		}
	}
	return true
}

func loadInline(verif string) map[string]bool {
	out := map[string]bool{}
	if data, err := os.ReadFile(filepath.Join(verif, "claims", "inline.json")); err == nil {
		_ = json.Unmarshal(data, &out)
	}
	return out
}

func hasPost(obls []*Obl) bool {
	for _, o := range obls {
		if o.Class == "post" || o.Class == "ipost" {
			return true
		}
	}
	return false
}

func loadLines(path string) map[string]bool {
	m := map[string]bool{}
	data, err := os.ReadFile(path)
	if err != nil {
		return m
	}
	for _, ln := range strings.Split(string(data), "\n") {
		ln = strings.TrimSpace(ln)
		if ln == "" || strings.HasPrefix(ln, "#") {
			continue
		}
		if i := strings.Index(ln, " "); i > 0 {
			ln = ln[:i]
		}
		m[ln] = true
	}
	return m
}

type unitReport struct {
	u     *Unit
	entry PropFunc
	obls  []*Obl
}

func classAllowed(classes []string, c string) bool {
	if len(classes) == 0 {
		return true
	}
	for _, x := range classes {
		if x == c {
			return true
		}
		if strings.HasSuffix(x, "*") && strings.HasPrefix(c, strings.TrimSuffix(x, "*")) {
			return true
		}
	}
	return false
}

var safetyClasses = []string{"nil", "assert", "idx", "div", "nilmap", "ifaceeq", "libpre", "panic", "pre", "closedsend", "doubleclose"}

func cmdCheck(args []string) {
	fs := flag.NewFlagSet("check", flag.ExitOnError)
	repo := fs.String("repo", "/repo", "repository")
	verif := fs.String("verif", "/verif", "verification directory")
	prop := fs.String("property", "", "property id")
	tier := fs.String("tier", "quick", "quick|thorough")
	writeClaims := fs.Bool("write-claims", false, "rewrite the claim list from this run (baseline only)")
	verbose := fs.Bool("v", false, "verbose")
	noEvidence := fs.Bool("no-evidence", false, "do not write the evidence file")
	replayOverride := fs.String("replay-dir", "", "directory for replay files (default <verif>/replay/<property>)")
	fs.Parse(args)
	if t := os.Getenv("VERIF_TIER"); t != "" && *tier == "" {
		*tier = t
	}
	seed := 0
	if s := os.Getenv("VERIF_SEED"); s != "" {
		seed, _ = strconv.Atoi(s)
	}
	t0 := time.Now()
	spec, err := loadPropSpec(filepath.Join(*verif, "props", *prop+".json"))
	if err != nil {
		fmt.Fprintln(os.Stderr, "property spec:", err)
		os.Exit(3)
	}
	var e *Engine
	if spec.Module == "codegen" {
		e, err = loadEngine(*repo, []string{"."}, filepath.Join(*repo, "cmd/arcaflow-codegen"))
	} else {
		e, err = loadEngine(*repo, []string{"./schema", "./atp"}, *repo)
	}
	if err != nil {
		// the tree does not build / contracts do not parse: nothing can be decided
		fmt.Println("ERROR: cannot load the repository with -tags verif:", err)
		os.Exit(3)
	}
	if !*writeClaims {
		e.baseLocals = loadBaseLocals(*verif)
		e.baseInline = loadInline(*verif)
	} else {
		e.sizeDecisions = map[string]bool{}
	}
	timeout := 10 * time.Second
	which := solvers
	if *tier == "thorough" {
		timeout = 60 * time.Second
		crossCheck = true
	}
	work, _ := os.MkdirTemp("", "govc-"+*prop)
	defer os.RemoveAll(work)

	e.frameSet = map[string]bool{}
	for _, en := range spec.Entries {
		if en.Mode == "frame" {
			for _, fn := range e.matchFuncs(en.Func) {
				e.frameSet[fnKey(fn)] = true
			}
		}
	}
	var reports []*unitReport
	var units []*Unit
	var problems []string
	seenFn := map[*ssa.Function]string{}
	for _, en := range spec.Entries {
		fns := e.matchFuncs(en.Func)
		if len(fns) == 0 {
			problems = append(problems, "function under contract not found: "+en.Func)
			continue
		}
		for _, fn := range fns {
			if m, ok := seenFn[fn]; ok && m == en.Mode {
				continue
			}
			seenFn[fn] = en.Mode
			skip := spec.SkipInv
			if en.KeepInv {
				skip = nil
			}
			u := e.verify(fn, VerifyOpts{SweepOnly: en.Mode == "sweep", Frame: en.Mode == "frame", NoInv: en.NoInv || spec.NoInv, SkipInv: skip, NoLoopInv: en.NoLoopInv})
			r := &unitReport{u: u, entry: en}
			var keep []*Obl
			for _, o := range u.obls {
				// loop invariants (declared and automatic) are assumed at every loop head: whatever else is counted for
				// this unit rests on them, so their own obligations always count
				invClass := o.Class == "inv-init" || o.Class == "inv-keep" || o.Class == "inv-auto"
				if (invClass || classAllowed(en.Classes, o.Class)) && !(len(spec.Exclude) > 0 && classAllowed(spec.Exclude, o.Class)) {
					keep = append(keep, o)
				}
			}
			u.obls = keep
			r.obls = keep
			reports = append(reports, r)
			units = append(units, u)
		}
	}
	// lemmas
	lu := e.lemmaUnit(spec.Lemmas)
	if lu != nil {
		units = append(units, lu)
		reports = append(reports, &unitReport{u: lu, entry: PropFunc{Func: "lemmas", Mode: "lemma"}, obls: lu.obls})
	}
	solveAll(units, work, timeout, which, 16)

	claims := loadLines(filepath.Join(*verif, "claims", *prop+".txt"))
	unclaimed := loadLines(filepath.Join(*verif, "claims", *prop+".unclaimed.txt"))
	findings := loadFindings(filepath.Join(*verif, "known_findings.txt"))
	// An edit that adds or removes an obligation of the same class earlier in a function shifts the trailing ordinal of
	// the later ones. Listed names (known findings, triaged unclaimed obligations) are therefore matched in two steps:
	// exactly, and then - for failing obligations whose exact name is not listed - against the listed names of the same
	// function, class and detail that no failing obligation matched exactly. A failure beyond the listed number for
	// that function/class/detail is still a violation.
	baseName := func(n string) string {
		if i := strings.LastIndex(n, ":"); i > 0 {
			if _, err := strconv.Atoi(n[i+1:]); err == nil {
				n = n[:i]
			}
		}
		// the path of inlined callees (@a>b) changes when a helper is extracted or inlined
		if i := strings.Index(n, "@"); i > 0 {
			n = n[:i]
		}
		return n
	}
	failing := map[string]bool{}
	for _, r := range reports {
		for _, o := range r.obls {
			if o.Status != "proved" {
				failing[o.Name] = true
			}
		}
	}
	spare := map[string][]string{} // base -> listed names without an exactly matching failing obligation
	addSpare := func(n string) {
		if !failing[n] {
			spare[baseName(n)] = append(spare[baseName(n)], n)
		}
	}
	for i := range findings {
		if findings[i].Kind == "finding" && findings[i].Property == *prop {
			addSpare(findings[i].Obligation)
		}
	}
	var unclaimedList []string
	for n := range unclaimed {
		unclaimedList = append(unclaimedList, n)
	}
	sort.Strings(unclaimedList)
	for _, n := range unclaimedList {
		addSpare(n)
	}
	// Origin matching: a limitation or finding recorded for function F is the same limitation wherever F's code is
	// inlined (a caller that starts to inline F after F got smaller, a helper extracted from F). Origins of an
	// obligation name: the functions of its inline path from the innermost outwards, then the unit itself.
	shortFn := func(f string) string {
		if i := strings.Index(f, "["); i > 0 {
			f = f[:i]
		}
		for _, pk := range []string{"schema.", "atp.", "main."} {
			if strings.HasPrefix(f, pk) {
				f = f[len(pk):]
				break
			}
		}
		return f
	}
	originKeys := func(n string) []string {
		hash := strings.Index(n, "#")
		if hash < 0 {
			return nil
		}
		unit, rest := n[:hash], n[hash+1:]
		if i := strings.LastIndex(rest, ":"); i > 0 {
			if _, err := strconv.Atoi(rest[i+1:]); err == nil {
				rest = rest[:i]
			}
		}
		cd, path := rest, ""
		if i := strings.Index(rest, "@"); i >= 0 {
			cd, path = rest[:i], rest[i+1:]
		}
		var out []string
		if path != "" {
			els := strings.Split(path, ">")
			for i := len(els) - 1; i >= 0; i-- {
				out = append(out, shortFn(els[i])+"#"+cd)
			}
		}
		out = append(out, shortFn(unit)+"#"+cd)
		return out
	}
	listedByOrigin := map[string]string{}
	regOrigin := func(n string) {
		ks := originKeys(n)
		if len(ks) > 0 {
			// a listed name stands for its innermost origin
			if _, dup := listedByOrigin[ks[0]]; !dup {
				listedByOrigin[ks[0]] = n
			}
		}
	}
	for i := range findings {
		if findings[i].Kind == "finding" && findings[i].Property == *prop {
			regOrigin(findings[i].Obligation)
		}
	}
	for _, n := range unclaimedList {
		regOrigin(n)
	}
	generated := map[string]bool{}
	for _, r := range reports {
		for _, o := range r.obls {
			generated[o.Name] = true
		}
	}
	originUsed := map[string]string{} // listed name -> the current name it stands for
	originListed := func(name string) string {
		if !strings.Contains(name, "@") {
			return "" // only obligations that come from inlined code are matched by origin
		}
		if claims[name] {
			return "" // an obligation that was proved when the claims were recorded has not moved: it broke
		}
		for _, k := range originKeys(name) {
			if l, ok := listedByOrigin[k]; ok {
				// the listed obligation must have disappeared under its own name (it moved), and it stands for one
				// obligation only
				if generated[l] {
					continue
				}
				if cur, used := originUsed[l]; used && cur != name {
					continue
				}
				originUsed[l] = name
				return l
			}
		}
		return ""
	}
	renumbered := map[string]string{} // current name -> listed name
	takeListed := func(name string) string {
		if l, ok := renumbered[name]; ok {
			return l
		}
		b := baseName(name)
		if len(spare[b]) == 0 {
			return ""
		}
		l := spare[b][0]
		spare[b] = spare[b][1:]
		renumbered[name] = l
		return l
	}
	findingExact := func(name string) *Finding {
		for i := range findings {
			f := &findings[i]
			if f.Kind == "finding" && f.Property == *prop && f.Obligation == name {
				return f
			}
		}
		return nil
	}
	findingFor := func(name string) *Finding {
		if f := findingExact(name); f != nil {
			return f
		}
		if unclaimed[name] || !failing[name] {
			return nil
		}
		if l := takeListed(name); l != "" {
			return findingExact(l) // nil when the spare listed name is an unclaimed one
		}
		if l := originListed(name); l != "" {
			return findingExact(l)
		}
		return nil
	}

	type violation struct {
		obl    *Obl
		u      *Unit
		replay string
		input  bool
		reason string
	}
	var viols []violation
	var known []string
	var knownObls []string
	var undecided []string
	var newProved []string
	nObl, nDis := 0, 0
	solverCount := map[string]int{}
	solverSecs := map[string]float64{}
	confirmed2 := 0
	var samples []any
	seenNames := map[string]bool{}
	var unsupportedFns []string
	for _, r := range reports {
		if r.u.unsup != "" {
			unsupportedFns = append(unsupportedFns, r.u.name+": "+r.u.unsup)
		}
		for _, o := range r.obls {
			seenNames[o.Name] = true
			if o.Status == "proved" {
				solverCount[o.Solver]++
				solverSecs[o.Solver] += o.Secs
				if o.Agree >= 2 {
					confirmed2++
				}
			}
			isClaimed := claims[o.Name]
			switch {
			case o.Status == "proved":
				if !isClaimed {
					newProved = append(newProved, o.Name)
				}
				if isClaimed || !unclaimed[o.Name] {
					nObl++
					nDis++
				}
				if len(samples) < 6 {
					samples = append(samples, map[string]any{"obligation": o.Name, "class": o.Class, "at": o.Pos, "what": o.Note, "solver": o.Solver, "secs": round3(o.Secs)})
				}
			default:
				if f := findingFor(o.Name); f != nil {
					// is every failing input inside the recorded class?
					ok, why := r.u.checkFindingClass(o, f, work, timeout, which)
					if ok {
						known = append(known, fmt.Sprintf("KNOWN-FINDING: property=%s %s %s", *prop, o.Name, f.What))
						knownObls = append(knownObls, o.Name)
						continue
					}
					nObl++
					viols = append(viols, violation{obl: o, u: r.u, reason: "fails outside the recorded known-finding class: " + why})
					continue
				}
				if unclaimed[o.Name] && !isClaimed {
					undecided = append(undecided, o.Name+" ("+o.Status+")")
					continue
				}
				if !unclaimed[o.Name] {
					if l := takeListed(o.Name); l != "" && unclaimed[l] {
						undecided = append(undecided, o.Name+" ("+o.Status+"; listed as "+l+", renumbered)")
						continue
					}
					if l := originListed(o.Name); l != "" && unclaimed[l] {
						undecided = append(undecided, o.Name+" ("+o.Status+"; same origin as listed "+l+")")
						continue
					}
				}
				nObl++
				if *writeClaims {
					continue
				}
				viols = append(viols, violation{obl: o, u: r.u, reason: o.Status})
			}
		}
	}
	// claimed obligations that were not generated this run
	var missing []string
	for c := range claims {
		if !seenNames[c] {
			missing = append(missing, c)
		}
	}
	sort.Strings(missing)

	if *writeClaims {
		writeClaimFiles(*verif, *prop, reports, findingFor)
		upd := map[string]map[string]string{}
		for _, r := range reports {
			for k, m := range r.u.localLocs {
				upd[k] = m
			}
		}
		writeBaseLocals(*verif, upd)
		cur := loadInline(*verif)
		for k, v := range e.sizeDecisions {
			cur[k] = v
		}
		data, _ := json.MarshalIndent(cur, "", " ")
		os.WriteFile(filepath.Join(*verif, "claims", "inline.json"), data, 0o644)
	}

	// vacuity: assumptions of every unit must be satisfiable
	var vacuous, noExit, deadRets, deadEdges []string
	{
		var mu sync.Mutex
		var wg sync.WaitGroup
		sem := make(chan struct{}, 12)
		for _, r := range reports {
			if r.entry.Mode == "lemma" || r.u.unsup != "" {
				continue
			}
			wg.Add(1)
			go func(r *unitReport) {
				defer wg.Done()
				sem <- struct{}{}
				defer func() { <-sem }()
				if st := r.u.vacuityCheck(work, 5*time.Second); st == "unsat" {
					mu.Lock()
					vacuous = append(vacuous, r.u.name)
					mu.Unlock()
				} else if hasPost(r.obls) && allProved(r.u.obls) {
					if st := r.u.exitCover(work, 5*time.Second); st == "unsat" {
						mu.Lock()
						noExit = append(noExit, r.u.name)
						mu.Unlock()
					}
					if *tier == "thorough" || os.Getenv("GOVC_DEADEDGES") != "" {
						de := r.u.deadEdges(work, 3*time.Second)
						mu.Lock()
						deadEdges = append(deadEdges, de...)
						mu.Unlock()
					}
					{
						dr := r.u.deadReturns(work, 3*time.Second)
						mu.Lock()
						deadRets = append(deadRets, dr...)
						mu.Unlock()
					}
				}
			}(r)
		}
		wg.Wait()
		sort.Strings(vacuous)
	}

	// a function whose claimed obligations are gone because the function (or its contract) can no longer be
	// interpreted: the contract fails on this code, which a deductive verifier reports as a failed verification
	for _, r := range reports {
		if r.u.unsup == "" || *writeClaims {
			continue
		}
		lost := 0
		for _, c := range missing {
			if strings.HasPrefix(c, r.u.name+"#") {
				lost++
			}
		}
		if lost > 0 {
			problems = append(problems, fmt.Sprintf("obligation=%s#contract (%d claimed obligations can no longer be generated: %s)", r.u.name, lost, r.u.unsup))
		}
	}

	// replay files for violations
	replayDir := filepath.Join(*verif, "replay", *prop)
	if *replayOverride != "" {
		replayDir = *replayOverride
	}
	os.MkdirAll(replayDir, 0o755)
	exit := 0
	nStandinViol := 0
	for _, k := range known {
		fmt.Println(k)
	}
	for i := range viols {
		v := &viols[i]
		path := filepath.Join(replayDir, sanitize(v.obl.Name)+".txt")
		confirmed := writeReplay(e, v.u, v.obl, path, v.reason, *repo)
		suffix := ""
		if !confirmed {
			suffix = " no-failing-input-found"
		}
		fmt.Printf("VIOLATION property=%s replay=%s obligation=%s (%s)%s\n", *prop, path, v.obl.Name, v.reason, suffix)
		exit = 1
	}
	for _, p := range problems {
		short := p
		if i := strings.Index(short, " ("); i > 0 {
			short = short[:i]
		}
		path := filepath.Join(replayDir, "problem-"+sanitize(strings.TrimPrefix(short, "obligation="))+".txt")
		os.WriteFile(path, []byte(p+"\n"), 0o644)
		fmt.Printf("VIOLATION property=%s replay=%s %s no-failing-input-found\n", *prop, path, p)
		exit = 1
	}
	for _, v := range vacuous {
		fmt.Printf("ERROR: assumptions of %s are unsatisfiable (vacuous proof)\n", v)
		exit = 3
	}
	// returns that no input reaches under the unit's assumptions: expected ones (instantiation-specific branches,
	// defensive code, scope restrictions) are listed in claims/dead_returns.txt; a new one on unchanged code means an
	// assumption has killed a path (path-level vacuity) and is reported
	sort.Strings(deadRets)
	baseDead := loadLines(filepath.Join(*verif, "claims", "dead_returns.txt"))
	var newDead []string
	for _, d := range deadRets {
		key := strings.ReplaceAll(d, " ", "_")
		if !baseDead[key] {
			newDead = append(newDead, d)
			fmt.Println("WARNING: unreachable return not in claims/dead_returns.txt (postconditions hold vacuously on that path):", d)
		}
	}
	if *writeClaims {
		cur := loadLines(filepath.Join(*verif, "claims", "dead_returns.txt"))
		for _, d := range deadRets {
			cur[strings.ReplaceAll(d, " ", "_")] = true
		}
		var ks []string
		for k := range cur {
			ks = append(ks, k)
		}
		sort.Strings(ks)
		os.WriteFile(filepath.Join(*verif, "claims", "dead_returns.txt"), []byte("# returns unreachable under the assumptions of their unit on the unchanged tree (reviewed; see DESIGN 2.10)\n"+strings.Join(ks, "\n")+"\n"), 0o644)
	}
	spec.deadRets = deadRets
	sort.Strings(deadEdges)
	baseEdges := loadLines(filepath.Join(*verif, "claims", "dead_edges.txt"))
	for _, d := range deadEdges {
		if !baseEdges[strings.ReplaceAll(d, " ", "_")] {
			fmt.Println("WARNING: branch never taken under the unit's assumptions, not in claims/dead_edges.txt:", d)
		}
	}
	if *writeClaims && len(deadEdges) > 0 {
		cur := loadLines(filepath.Join(*verif, "claims", "dead_edges.txt"))
		for _, d := range deadEdges {
			cur[strings.ReplaceAll(d, " ", "_")] = true
		}
		var ks []string
		for k := range cur {
			ks = append(ks, k)
		}
		sort.Strings(ks)
		os.WriteFile(filepath.Join(*verif, "claims", "dead_edges.txt"), []byte("# conditional branches never taken under the assumptions of their unit on the unchanged tree (thorough tier; reviewed)\n"+strings.Join(ks, "\n")+"\n"), 0o644)
	}
	spec.deadEdges = deadEdges
	sort.Strings(noExit)
	for _, v := range noExit {
		fmt.Printf("ERROR: no return of %s is reachable under its assumptions: its postconditions would be discharged vacuously\n", v)
		exit = 3
	}
	if nObl == 0 && exit == 0 {
		fmt.Println("ERROR: no obligations generated")
		exit = 3
	}
	if *verbose {
		for _, r := range reports {
			for _, o := range r.obls {
				if o.Status != "proved" {
					fmt.Printf("  %-8s %s [%s] %s\n", o.Status, o.Name, o.Pos, o.Note)
				}
			}
			if r.u.unsup != "" {
				fmt.Printf("  UNSUPPORTED %s: %s\n", r.u.name, r.u.unsup)
			}
		}
		for _, m := range missing {
			fmt.Println("  missing claimed obligation:", m)
		}
		for _, n := range newProved {
			fmt.Println("  proved but not in claim list:", n)
		}
	}

	// bounded stand-ins (labelled bounded, never counted as discharged)
	var standinReports []map[string]any
	for _, b := range spec.Bounded {
		rep, allFails := runStandin(*repo, *verif, b, *tier)
		standinReports = append(standinReports, rep)
		// failing cases that carry a key (STANDIN-FAIL <id> key=<k> ...) may be recorded known findings
		var fails []string
		knownKeys := map[string]bool{}
		for _, f := range allFails {
			key := ""
			for _, w := range strings.Fields(f) {
				if strings.HasPrefix(w, "key=") {
					key = strings.TrimPrefix(w, "key=")
					break
				}
			}
			name := "standin:" + strings.SplitN(b, "|", 2)[0] + ":" + key
			if kf := findingFor(name); key != "" && kf != nil {
				if !knownKeys[key] {
					knownKeys[key] = true
					fmt.Printf("KNOWN-FINDING: property=%s %s %s\n", *prop, name, kf.What)
					knownObls = append(knownObls, name)
				}
				continue
			}
			fails = append(fails, f)
		}
		rep["known_finding_cases"] = len(allFails) - len(fails)
		rep["failures"] = len(fails)
		if len(fails) > 0 {
			path := filepath.Join(replayDir, "standin-"+sanitize(strings.SplitN(b, "|", 2)[0])+".txt")
			os.WriteFile(path, []byte(strings.Join(fails, "\n")+"\n"), 0o644)
			fmt.Printf("VIOLATION property=%s replay=%s bounded stand-in %s: %d failing cases, first: %s\n", *prop, path, strings.SplitN(b, "|", 2)[0], len(fails), trunc(fails[0], 200))
			exit = 1
			nStandinViol++
		}
	}
	// replays of recorded findings and repaired defects against the real code (thorough tier)
	var regReports []map[string]any
	if *tier == "thorough" {
		for _, rt := range spec.Regression {
			cmd := exec.Command("bash", "-c", rt.Cmd)
			cmd.Dir = *verif
			cmd.Env = append(os.Environ(), "REPO="+*repo, "GOFLAGS=-mod=mod", "GOPROXY=off", "GOSUMDB=off", "GOTOOLCHAIN=local")
			out, err := cmd.CombinedOutput()
			passed := err == nil
			rep := map[string]any{"name": rt.Name, "expect": rt.Expect, "passed": passed}
			switch {
			case rt.Expect == "pass" && !passed:
				path := filepath.Join(replayDir, "regression-"+sanitize(rt.Name)+".txt")
				os.WriteFile(path, out, 0o644)
				fmt.Printf("VIOLATION property=%s replay=%s regression %s: a repaired defect is back (the replay against the real code fails)\n", *prop, path, rt.Name)
				exit = 1
				nStandinViol++
			case rt.Expect == "fail" && passed:
				fmt.Printf("NOTE: property=%s the replay of known finding %s passes on this tree: the finding may be stale\n", *prop, rt.Name)
				rep["stale"] = true
			}
			regReports = append(regReports, rep)
		}
	}
	// evidence
	if !*noEvidence {
		spec.regReports = regReports
		spec.confirmed2 = confirmed2
		spec.standinReports = standinReports
		ev := buildEvidence(e, spec, *prop, *tier, seed, reports, nObl, nDis, len(viols)+len(problems)+nStandinViol, solverCount, solverSecs, samples, knownObls, undecided, missing, unsupportedFns, time.Since(t0).Seconds(), *verif)
		os.MkdirAll(filepath.Join(*verif, "evidence"), 0o755)
		data, _ := json.MarshalIndent(ev, "", " ")
		os.WriteFile(filepath.Join(*verif, "evidence", *prop+".json"), data, 0o644)
	}
	fmt.Printf("property %s: %d obligations, %d discharged, %d known findings, %d not claimed (undecided), %d violations, %.1fs\n", *prop, nObl, nDis, len(knownObls), len(undecided), len(viols)+len(problems), time.Since(t0).Seconds())
	os.RemoveAll(work)
	os.Exit(exit)
}

func round3(f float64) float64 { return float64(int(f*1000)) / 1000 }

func loadPropSpec(path string) (*PropSpec, error) {
	data, err := os.ReadFile(path)
	if err != nil {
		return nil, err
	}
	var s PropSpec
	if err := json.Unmarshal(data, &s); err != nil {
		return nil, err
	}
	have := map[string]bool{}
	for _, en := range s.Entries {
		have[en.Func] = true
	}
	for _, inc := range s.Include {
		sub, err := loadPropSpec(filepath.Join(filepath.Dir(path), inc+".json"))
		if err != nil {
			return nil, err
		}
		for _, en := range sub.Entries {
			if !have[en.Func] {
				have[en.Func] = true
				s.Entries = append(s.Entries, en)
			}
		}
	}
	return &s, nil
}

func (e *Engine) matchFuncs(pat string) []*ssa.Function {
	var keys []string
	for k := range e.funcs {
		if k == pat || (strings.HasSuffix(pat, "*") && strings.HasPrefix(k, strings.TrimSuffix(pat, "*"))) {
			keys = append(keys, k)
		}
	}
	sort.Strings(keys)
	var out []*ssa.Function
	for _, k := range keys {
		out = append(out, e.funcs[k]...)
	}
	return out
}

func writeClaimFiles(verif, prop string, reports []*unitReport, findingFor func(string) *Finding) {
	var cl, un []string
	for _, r := range reports {
		for _, o := range r.obls {
			if o.Status == "proved" && o.Secs < 3.0 {
				cl = append(cl, o.Name)
			} else if findingFor(o.Name) != nil {
				cl = append(cl, o.Name)
			} else {
				un = append(un, fmt.Sprintf("%s %s %s", o.Name, o.Status, o.Note))
			}
		}
	}
	sort.Strings(cl)
	sort.Strings(un)
	os.MkdirAll(filepath.Join(verif, "claims"), 0o755)
	os.WriteFile(filepath.Join(verif, "claims", prop+".txt"), []byte(strings.Join(cl, "\n")+"\n"), 0o644)
	os.WriteFile(filepath.Join(verif, "claims", prop+".unclaimed.txt"), []byte("# obligations generated but not claimed (tool limit or contract too weak); triage in claims/triage.md\n"+strings.Join(un, "\n")+"\n"), 0o644)
}

// vacuityCheck: the assumptions (facts) of the unit together with the entry must be satisfiable
// exitCover: can the function return at all under its assumptions? If not, every postcondition of the unit is
// discharged vacuously (a precondition that excludes everything, or an assumption that killed all paths).
func (u *Unit) exitCover(dir string, timeout time.Duration) string {
	if u.exitPc == "" || u.exitPc == "true" {
		return "sat"
	}
	if u.exitPc == "false" {
		return "unsat"
	}
	o := &Obl{Name: u.name + "#cover", Cond: "true", Goal: not(u.exitPc)}
	q := u.buildQuery(o, false)
	fn := filepath.Join(dir, sanitize(o.Name)+".smt2")
	os.WriteFile(fn, []byte(q), 0o644)
	r := runSolver(contextBackground(), solvers[0], fn, timeout)
	return r.status
}

// deadEdges (thorough tier): conditional branches of the function that no input takes under the unit's assumptions
func (u *Unit) deadEdges(dir string, timeout time.Duration) []string {
	var out []string
	for i, ep := range u.edgePcs {
		o := &Obl{Name: fmt.Sprintf("%s#cover.edge%d", u.name, i), Cond: "true", Goal: not(ep[0])}
		q := u.buildQuery(o, false)
		fn := filepath.Join(dir, sanitize(o.Name)+".smt2")
		os.WriteFile(fn, []byte(q), 0o644)
		if runSolver(contextBackground(), solvers[0], fn, timeout).status == "unsat" {
			out = append(out, ep[1])
		}
	}
	return out
}

// deadReturns: returns of the function that no input reaches under the unit's assumptions
func (u *Unit) deadReturns(dir string, timeout time.Duration) []string {
	var out []string
	for i, rp := range u.retPcs {
		if rp[0] == "true" {
			continue
		}
		st := "unsat"
		if rp[0] != "false" {
			o := &Obl{Name: fmt.Sprintf("%s#cover.ret%d", u.name, i), Cond: "true", Goal: not(rp[0])}
			q := u.buildQuery(o, false)
			fn := filepath.Join(dir, sanitize(o.Name)+".smt2")
			os.WriteFile(fn, []byte(q), 0o644)
			st = runSolver(contextBackground(), solvers[0], fn, timeout).status
		}
		if st == "unsat" {
			out = append(out, fmt.Sprintf("%s return at %s", u.name, rp[1]))
		}
	}
	return out
}

func (u *Unit) vacuityCheck(dir string, timeout time.Duration) string {
	// first without the quantified facts (a sat answer is reliable there), then with all facts: an unsat answer
	// of either query means that every obligation of the unit would be discharged vacuously
	if st := u.vacuityQuery(dir, timeout, false); st == "unsat" {
		return st
	}
	hasQ := false
	for _, f := range u.facts {
		if strings.Contains(f, "(forall") || strings.Contains(f, "(exists") {
			hasQ = true
		}
	}
	if hasQ {
		if st := u.vacuityQuery(dir, timeout, true); st == "unsat" {
			return st
		}
	}
	return "sat"
}

func (u *Unit) vacuityQuery(dir string, timeout time.Duration, withQuant bool) string {
	o := &Obl{Name: u.name + "#vacuity", Cond: "true", Goal: "false"}
	if withQuant {
		o.Name += "q"
	}
	// use all facts: pretend every symbol is relevant by conjoining nothing; buildQuery slices by goal
	// symbols, so put all fact symbols into Extra-free goal: we simply ask for sat of all facts.
	var sb strings.Builder
	sb.WriteString("(set-logic ALL)\n")
	sb.WriteString(preludeSorts)
	for _, d := range u.w.sortDecls {
		sb.WriteString(d + "\n")
	}
	ground := u.w.groundFacts()
	ground = append(ground, u.implFacts()...)
	for _, d := range u.w.funDecls {
		sb.WriteString(d + "\n")
	}
	for _, f := range u.facts {
		if !withQuant && (strings.Contains(f, "(forall") || strings.Contains(f, "(exists")) {
			continue // quantified facts make sat answers unreliable
		}
		sb.WriteString("(assert " + f + ")\n")
	}
	for _, f := range ground {
		sb.WriteString("(assert " + f + ")\n")
	}
	sb.WriteString("(check-sat)\n")
	fn := filepath.Join(dir, sanitize(o.Name)+".smt2")
	os.WriteFile(fn, []byte(sb.String()), 0o644)
	r := runSolver(contextBackground(), solvers[0], fn, timeout)
	if r.status == "unsat" && os.Getenv("GOVC_KEEPVAC") != "" {
		os.WriteFile("/tmp/vacuity-"+sanitize(u.name)+".smt2", []byte(sb.String()), 0o644)
	}
	return r.status
}

var reClassVar = regexp.MustCompile(`[A-Za-z_][A-Za-z0-9_]*`)

// checkFindingClass: re-ask the failed obligation with the recorded class excluded. unsat => every
// failing input lies in the recorded class.
func (u *Unit) checkFindingClass(o *Obl, f *Finding, dir string, timeout time.Duration, which []solverSpec) (bool, string) {
	if f.Class == "" {
		return true, ""
	}
	ex, err := parseExpr(f.Class)
	if err != nil {
		return false, "class predicate does not parse: " + err.Error()
	}
	var cls string
	func() {
		defer func() {
			if r := recover(); r != nil {
				cls = ""
				err = fmt.Errorf("%v", r)
			}
		}()
		fr := u.top
		env := fr.baseEnv()
		cls = fr.evalBool(ex, env, fr.entry, fr.entry)
	}()
	if cls == "" {
		return false, fmt.Sprintf("class predicate cannot be evaluated: %v", err)
	}
	o2 := &Obl{Name: o.Name + "~outside-class", Cond: o.Cond, Goal: o.Goal, Extra: []string{not(cls)}}
	q := u.buildQuery(o2, true)
	u.solveText(o2, q, dir, timeout, which)
	if o2.Status == "proved" {
		return true, ""
	}
	o.Model = o2.Model
	o.Raw = o2.Raw
	return false, o2.Status
}

// runStandin runs one bounded stand-in: "name|file under /verif/standins|TestName|package dir". The test is injected
// with go test -overlay and prints "STANDIN <id> checked=N failures=K bound=..." and "STANDIN-FAIL ..." lines.
func runStandin(repo, verif, spec, tier string) (map[string]any, []string) {
	parts := strings.Split(spec, "|")
	rep := map[string]any{"name": parts[0], "kind": "bounded stand-in (not a proof)"}
	if len(parts) < 4 {
		rep["error"] = "bad stand-in spec"
		return rep, []string{"bad stand-in spec " + spec}
	}
	src := filepath.Join(verif, "standins", parts[1])
	dir, _ := os.MkdirTemp("", "govc-standin")
	defer os.RemoveAll(dir)
	ov := filepath.Join(dir, "ov.json")
	target := filepath.Join(repo, parts[3], "zz_govc_standin_test.go")
	os.WriteFile(ov, []byte(fmt.Sprintf(`{"Replace":{%q:%q}}`, target, src)), 0o644)
	cmd := exec.Command("go", "test", "-overlay", ov, "-vet=off", "-count=1", "-timeout", "600s", "-v", "-run", "^"+parts[2]+"$", "./"+parts[3])
	cmd.Dir = repo
	cmd.Env = append(os.Environ(), "GOFLAGS=-mod=mod", "GOPROXY=off", "GOSUMDB=off", "GOTOOLCHAIN=local", "GOVC_TIER="+tier)
	out, err := cmd.CombinedOutput()
	var fails []string
	summary := ""
	for _, ln := range strings.Split(string(out), "\n") {
		if strings.HasPrefix(ln, "STANDIN-FAIL") {
			fails = append(fails, ln)
		} else if strings.HasPrefix(ln, "STANDIN ") {
			summary = ln
		}
	}
	if summary == "" {
		fails = append(fails, "stand-in did not run: "+trunc(string(out), 600))
	} else if err != nil && len(fails) == 0 {
		fails = append(fails, "stand-in test failed: "+trunc(string(out), 600))
	}
	rep["summary"] = summary
	rep["failures"] = len(fails)
	return rep, fails
}
