package main

import (
	"fmt"
	"go/token"
	"go/types"
	"sort"
	"strings"

	"golang.org/x/tools/go/ssa"
)

// ---------------------------------------------------------------------------------------------
// Loops: cut at headers. inv-init on entry, havoc, assume invariant, inv-keep on back edges.
// ---------------------------------------------------------------------------------------------

type loopCtx struct {
	header   *ssa.BasicBlock
	ord      int
	phis     []*ssa.Phi
	iters    []*iterState
	entryNow string
}

// loopWrites computes the heap keys written in the loop body. open[key]=true when pre-existing
// cells may be written (a store through a pointer that is not a fresh allocation of the body).
func (fr *Frame) loopWrites(h *ssa.BasicBlock) (keys map[string]bool, open map[string]bool, ghosts map[string]bool) {
	u := fr.u
	keys = map[string]bool{}
	open = map[string]bool{}
	ghosts = map[string]bool{}
	body := fr.loopBody[h]
	var blocks []*ssa.BasicBlock
	for b := range body {
		blocks = append(blocks, b)
	}
	sort.Slice(blocks, func(i, j int) bool { return blocks[i].Index < blocks[j].Index })
	for _, b := range blocks {
		for _, in := range b.Instrs {
			switch x := in.(type) {
			case *ssa.Alloc:
				el := x.Type().(*types.Pointer).Elem()
				if at, ok := el.Underlying().(*types.Array); ok {
					keys[u.regA(at.Elem())] = true
				} else {
					keys[u.regT(el)] = true
				}
			case *ssa.MakeSlice:
				keys[u.regA(x.Type().Underlying().(*types.Slice).Elem())] = true
			case *ssa.MakeMap:
				kd, kv, kl := u.regM(x.Type().Underlying().(*types.Map))
				keys[kd], keys[kv], keys[kl] = true, true, true
			case *ssa.Store:
				fr.lastSliceBase = nil
				k, fresh := fr.storeTarget(x.Addr, body)
				if k != "" {
					keys[k] = true
					if !fresh {
						// a store into an element of a slice value that is defined outside the loop writes only that
						// slice's backing array: every other array of that element type keeps its contents
						if sb := fr.lastSliceBase; sb != nil && definedOutside(sb, body) {
							if fr.loopTargets == nil {
								fr.loopTargets = map[*ssa.BasicBlock]map[string][]ssa.Value{}
							}
							if fr.loopTargets[h] == nil {
								fr.loopTargets[h] = map[string][]ssa.Value{}
							}
							dup := false
							for _, t := range fr.loopTargets[h][k] {
								dup = dup || t == sb
							}
							if !dup {
								fr.loopTargets[h][k] = append(fr.loopTargets[h][k], sb)
							}
						} else {
							open[k] = true
						}
					}
				}
			case *ssa.MapUpdate:
				mt := x.Map.Type().Underlying().(*types.Map)
				kd, kv, kl := u.regM(mt)
				fresh := false
				if mm, ok := x.Map.(*ssa.MakeMap); ok && body[mm.Block()] {
					fresh = true
				}
				for _, k := range []string{kd, kv, kl} {
					keys[k] = true
					if !fresh {
						open[k] = true
					}
				}
			case ssa.CallInstruction:
				ms := u.eng.callModset(u, x.Common())
				inPlaceFresh := false
				if callee := x.Common().StaticCallee(); callee != nil && (extName(callee) == "sort.Strings" || extName(callee) == "sort.Ints") && len(x.Common().Args) == 1 {
					// sorts its operand in place: no pre-existing memory is written when the operand was allocated in the body
					inPlaceFresh = allocatedIn(x.Common().Args[0], body, map[ssa.Value]bool{})
				}
				for k, op := range ms.keys {
					keys[k] = true
					if op && !inPlaceFresh {
						open[k] = true
					}
				}
				// decoders fill the value their last argument points to
				if callee := x.Common().StaticCallee(); callee != nil && (strings.HasSuffix(extName(callee), "cbor/v2.Decoder).Decode") || strings.HasSuffix(extName(callee), "cbor/v2.Unmarshal")) {
					args := x.Common().Args
					if mi, ok := args[len(args)-1].(*ssa.MakeInterface); ok {
						if pt, ok := mi.X.Type().Underlying().(*types.Pointer); ok {
							k := u.regT(pt.Elem())
							keys[k] = true
							if al, isAlloc := mi.X.(*ssa.Alloc); !isAlloc || !body[al.Block()] {
								open[k] = true
							}
						}
					}
				}
				for g := range ms.ghosts {
					ghosts[g] = true
				}
			}
		}
	}
	return
}

// storeTarget: heap key of a store address and whether the target is certainly memory allocated in the body
func (fr *Frame) storeTarget(addr ssa.Value, body map[*ssa.BasicBlock]bool) (string, bool) {
	u := fr.u
	root := addr
	for {
		switch x := root.(type) {
		case *ssa.FieldAddr:
			root = x.X
			continue
		case *ssa.IndexAddr:
			if _, ok := x.X.Type().Underlying().(*types.Slice); ok {
				el := x.X.Type().Underlying().(*types.Slice).Elem()
				fresh := false
				if ms, ok := x.X.(*ssa.MakeSlice); ok && body != nil && body[ms.Block()] {
					fresh = true
				}
				fr.lastKeyInfo = keyInfo{'A', el}
				fr.lastSliceBase = x.X
				return u.regA(el), fresh
			}
			root = x.X
			continue
		}
		break
	}
	pt, ok := root.Type().Underlying().(*types.Pointer)
	if !ok {
		return "", false
	}
	fresh := false
	if al, ok := root.(*ssa.Alloc); ok && (body == nil || body[al.Block()]) {
		fresh = true
	}
	if at, ok := pt.Elem().Underlying().(*types.Array); ok {
		fr.lastKeyInfo = keyInfo{'A', at.Elem()}
		return u.regA(at.Elem()), fresh
	}
	fr.lastKeyInfo = keyInfo{'T', pt.Elem()}
	return u.regT(pt.Elem()), fresh
}

func (fr *Frame) enterLoop(h *ssa.BasicBlock, st *State, phiIn func(*ssa.Phi) *Val) {
	u := fr.u
	ord := fr.loopOrd[h]
	var phis []*ssa.Phi
	for _, in := range h.Instrs {
		if p, ok := in.(*ssa.Phi); ok {
			phis = append(phis, p)
		} else {
			break
		}
	}
	// iterators advanced in this loop (Next instructions in the body whose Range is outside)
	var iters []*iterState
	body := fr.loopBody[h]
	for b := range body {
		for _, in := range b.Instrs {
			if nx, ok := in.(*ssa.Next); ok {
				if rg, ok := nx.Iter.(*ssa.Range); ok && !body[rg.Block()] {
					if iv, ok := fr.vals[rg]; ok && iv.K == vIter {
						iters = append(iters, iv.It)
					}
				}
			}
		}
	}
	// 1. entry values
	entryVals := map[*ssa.Phi]*Val{}
	for _, p := range phis {
		entryVals[p] = phiIn(p)
	}
	// 2. inv-init
	invs := fr.loopInvariants(ord)
	env := fr.loopEnv(h, func(p *ssa.Phi) *Val { return entryVals[p] })
	if fr.loopPreSt == nil {
		fr.loopPreSt, fr.loopPreEnv = map[*ssa.BasicBlock]*State{}, map[*ssa.BasicBlock]*Env{}
	}
	fr.loopPreSt[h], fr.loopPreEnv[h] = st.clone(), env
	env.loopPre, env.loopPreEnv, env.at = fr.loopPreSt[h], env, h
	for i, inv := range invs {
		g := fr.evalBool(inv, env, st, fr.entry)
		u.oblige(fr, st, "inv-init", fmt.Sprintf("loop%d.%d", ord, i+1), g, token.NoPos, "loop invariant holds on entry: "+inv.src)
	}
	for i, ai := range fr.autoInvariants(h, phis, func(p *ssa.Phi) *Val { return entryVals[p] }, st) {
		u.oblige(fr, st, "inv-auto", fmt.Sprintf("init.loop%d.%d", ord, i+1), ai, token.NoPos, "automatic loop invariant holds on entry")
	}
	// 3. havoc
	keys, open, ghosts := fr.loopWrites(h)
	var ks []string
	for k := range keys {
		ks = append(ks, k)
	}
	sort.Strings(ks)
	for _, k := range ks {
		var except []string
		if !open[k] {
			for _, sb := range fr.loopTargets[h][k] {
				if v := fr.val(sb); v != nil && v.K == vTerm {
					except = append(except, fmt.Sprintf("(sdata %s)", v.T))
				} else {
					open[k] = true
				}
			}
		}
		if open[k] {
			except = nil
		}
		u.havocHeap(st, k, open[k], except)
	}
	for g := range ghosts {
		if srt := u.ghostSort[g]; srt != "" {
			st.ghost[g] = u.w.newConst("g:"+g, srt)
		}
	}
	if len(ks) > 0 {
		nn := u.w.newConst("now", "Int")
		u.fact(fmt.Sprintf("(>= %s %s)", nn, st.now))
		st.now = nn
	}
	for _, it := range iters {
		gk := "visited:" + it.id
		st.ghost[gk] = u.w.newConst("visited", u.ghostSort[gk])
	}
	for _, p := range phis {
		ev := entryVals[p]
		if ev.K != vTerm && ev.K != vFunc {
			u.unsupportedf("loop-carried non-term value %s", p.Name())
		}
		n := u.w.newConst(fr.fn.Name()+"."+p.Name()+":"+p.Comment, u.w.sortOf(p.Type()))
		fr.vals[p] = term(n, p.Type())
		for _, f := range u.wfFacts(st, n, p.Type(), 0) {
			u.fact(f)
		}
	}
	// slices that enumerate the keys of a map once this loop has finished
	for _, p := range phis {
		if mv, ok := fr.keyEnumeration(h, p); ok {
			if m := fr.val(mv); m != nil && m.K == vTerm {
				if u.enumTag == nil {
					u.enumTag = map[string]*enumInfo{}
				}
				u.enumTag[fr.vals[p].T] = &enumInfo{mapT: m.T, mt: mv.Type().Underlying().(*types.Map), h: h, fr: fr}
			}
		}
	}
	if ie := fr.idxEnumeration(h); ie != nil {
		if m, sv := fr.val(ie.mapv), fr.val(ie.slice); m != nil && m.K == vTerm && sv != nil && sv.K == vTerm {
			if u.enumTag == nil {
				u.enumTag = map[string]*enumInfo{}
			}
			u.enumTag[sv.T] = &enumInfo{mapT: m.T, mt: ie.mapv.Type().Underlying().(*types.Map), h: h, fr: fr, indexed: true}
		}
	}
	// 4. assume invariants
	env2 := fr.loopEnv(h, func(p *ssa.Phi) *Val { return fr.vals[p] })
	env2.loopPre, env2.loopPreEnv, env2.at = fr.loopPreSt[h], fr.loopPreEnv[h], h
	for _, inv := range invs {
		u.fact(implies(st.pc, fr.evalBool(inv, env2, st, fr.entry)))
	}
	for _, ai := range fr.autoInvariants(h, phis, func(p *ssa.Phi) *Val { return fr.vals[p] }, st) {
		u.fact(implies(st.pc, ai))
	}
}

func (fr *Frame) closeLoop(from, h *ssa.BasicBlock, st *State) {
	u := fr.u
	ord := fr.loopOrd[h]
	idx := 0
	for i, p := range h.Preds {
		if p == from {
			idx = i
		}
	}
	back := func(p *ssa.Phi) *Val { return fr.val(p.Edges[idx]) }
	env := fr.loopEnv(h, back)
	env.loopPre, env.loopPreEnv, env.at = fr.loopPreSt[h], fr.loopPreEnv[h], h
	for i, inv := range fr.loopInvariants(ord) {
		g := fr.evalBool(inv, env, st, fr.entry)
		u.oblige(fr, st, "inv-keep", fmt.Sprintf("loop%d.%d", ord, i+1), g, token.NoPos, "loop invariant preserved: "+inv.src)
	}
	var phis []*ssa.Phi
	for _, in := range h.Instrs {
		if p, ok := in.(*ssa.Phi); ok {
			phis = append(phis, p)
		}
	}
	for i, ai := range fr.autoInvariants(h, phis, back, st) {
		u.oblige(fr, st, "inv-auto", fmt.Sprintf("loop%d.%d", ord, i+1), ai, token.NoPos, "automatic loop invariant preserved")
	}
}

// autoInvariants: bounds of range-index variables and counters that only grow from a constant.
func (fr *Frame) autoInvariants(h *ssa.BasicBlock, phis []*ssa.Phi, pv func(*ssa.Phi) *Val, st *State) []string {
	var out []string
	// a loop over a reflect map iterator created before it: the position never drops below -1
	if itv := fr.mapIterOfLoop(h); itv != nil && st != nil {
		if iv, ok := fr.vals[itv]; ok && iv.K == vTerm {
			fr.u.ghostSort["miter_pos"] = "(Array Ref Int)"
			out = append(out, fmt.Sprintf("(>= (select %s %s) (- 1))", fr.u.ghostOf(st, "miter_pos"), iv.T))
		}
	}
	for _, p := range phis {
		if _, isSlice := p.Type().Underlying().(*types.Slice); isSlice && !fr.u.checkFrame {
			// a slice that is only grown by append: its backing array is the one it had on entry of the loop
			// or one allocated since
			if pre := fr.loopPreSt[h]; pre != nil && fr.onlyAppended(h, p) {
				var init *Val
				for i, e := range p.Edges {
					if !fr.backEdge[[2]int{h.Preds[i].Index, h.Index}] {
						init = fr.val(e)
					}
				}
				if v := pv(p); v != nil && v.K == vTerm && init != nil && init.K == vTerm {
					out = append(out, fmt.Sprintf("(or (= (sdata %s) (sdata %s)) (>= (birth (sdata %s)) %s))", v.T, init.T, v.T, pre.now))
				}
			}
			continue
		}
		if _, isSlice := p.Type().Underlying().(*types.Slice); isSlice && fr.u.checkFrame {
			// accumulator slices: the backing array is nil or was allocated by this call
			if v := pv(p); v != nil && v.K == vTerm {
				out = append(out, fmt.Sprintf("(or (= (sdata %s) nil) (>= (birth (sdata %s)) %s))", v.T, v.T, fr.u.entryNow))
			}
			continue
		}
		if !isInteger(p.Type()) {
			continue
		}
		// find the entry constant
		var init *ssa.Const
		var step ssa.Value
		for i, e := range p.Edges {
			if fr.backEdge[[2]int{h.Preds[i].Index, h.Index}] {
				step = e
			} else if c, ok := e.(*ssa.Const); ok {
				init = c
			}
		}
		if init == nil || step == nil {
			continue
		}
		bo, ok := step.(*ssa.BinOp)
		if !ok || bo.Op != token.ADD || bo.X != ssa.Value(p) {
			continue
		}
		c, ok := bo.Y.(*ssa.Const)
		if !ok || c.Int64() <= 0 {
			continue
		}
		v := pv(p)
		if v == nil || v.K != vTerm {
			continue
		}
		out = append(out, fmt.Sprintf("(>= %s %s)", v.T, intLit(init.Int64())))
		// upper bound for the rangeindex pattern: t = phi+1 ; if t < len
		if p.Comment == "rangeindex" && bo.Block() == h {
			if iff, ok := h.Instrs[len(h.Instrs)-1].(*ssa.If); ok {
				if cmp, ok := iff.Cond.(*ssa.BinOp); ok && cmp.Op == token.LSS && cmp.X == ssa.Value(bo) {
					if lv, ok := fr.vals[cmp.Y]; ok && lv.K == vTerm {
						out = append(out, fmt.Sprintf("(< %s (ite (> %s 0) %s 0))", v.T, lv.T, lv.T))
					} else if lc, ok := cmp.Y.(*ssa.Const); ok {
						out = append(out, fmt.Sprintf("(< %s %d)", v.T, max64(lc.Int64(), 0)))
					}
				}
			}
		}
	}
	return out
}

func max64(a, b int64) int64 {
	if a > b {
		return a
	}
	return b
}

// ---------------------------------------------------------------------------------------------
// Maps
// ---------------------------------------------------------------------------------------------

func (u *Unit) newMap(st *State, mt *types.Map, prefix string) string {
	r := u.allocRef(st, prefix)
	kd, kv, kl := u.regM(mt)
	ks, vs := u.w.sortOf(mt.Key()), u.w.sortOf(mt.Elem())
	hd := u.heapOf(st, kd)
	st.heap[kd] = u.nameHeap(kd, fmt.Sprintf("(store %s %s ((as const (Array %s Bool)) false))", hd, r, ks))
	hv := u.heapOf(st, kv)
	st.heap[kv] = u.nameHeap(kv, fmt.Sprintf("(store %s %s %s)", hv, r, u.w.constArray(fmt.Sprintf("(Array %s %s)", ks, vs), vs, u.w.zero(mt.Elem()))))
	hl := u.heapOf(st, kl)
	st.heap[kl] = u.nameHeap(kl, fmt.Sprintf("(store %s %s 0)", hl, r))
	return r
}

func (u *Unit) mapDom(st *State, mt *types.Map, m string) string {
	kd, _, _ := u.regM(mt)
	return u.sel1(u.heapOf(st, kd), m)
}
func (u *Unit) mapVal(st *State, mt *types.Map, m string) string {
	_, kv, _ := u.regM(mt)
	return u.sel1(u.heapOf(st, kv), m)
}
func (u *Unit) mapLen(st *State, mt *types.Map, m string) string {
	_, _, kl := u.regM(mt)
	t := u.sel1(u.heapOf(st, kl), m)
	ck := "maplen:" + t
	if !u.frameDone[ck] {
		u.frameDone[ck] = true
		u.fact(fmt.Sprintf("(>= %s 0)", t))
		u.fact(fmt.Sprintf("(<= %s 9223372036854775807)", t))
	}
	return t
}

// closedPreMap: values stored (at entry) in a map that existed at entry denote objects that existed at entry
func (u *Unit) closedPreMap(mt *types.Map, m string, k string) {
	var get func(t string) string
	switch mt.Elem().Underlying().(type) {
	case *types.Pointer, *types.Map, *types.Chan, *types.Signature:
		get = func(t string) string { return t }
	case *types.Slice:
		get = func(t string) string { return "(sdata " + t + ")" }
	default:
		return
	}
	_, kv, _ := u.regM(mt)
	kd, _, _ := u.regM(mt)
	t0 := fmt.Sprintf("(select (select %s %s) %s)", u.entryHeap(kv), m, k)
	d0 := fmt.Sprintf("(select (select %s %s) %s)", u.entryHeap(kd), m, k)
	ck := "closedm:" + t0
	if u.frameDone[ck] {
		return
	}
	u.frameDone[ck] = true
	u.fact(implies(and(fmt.Sprintf("(< (birth %s) %s)", m, u.entryNow), d0), fmt.Sprintf("(< (birth %s) %s)", get(t0), u.entryNow)))
}

func (fr *Frame) lookup(x *ssa.Lookup, st *State) *Val {
	u := fr.u
	m := fr.val(x.X)
	k := fr.val(x.Index)
	if isString(x.X.Type()) {
		u.w.declFun("strbyte", []string{"Str", "Int"}, "Int")
		u.oblige(fr, st, "idx", "string", and(fmt.Sprintf("(<= 0 %s)", k.T), fmt.Sprintf("(< %s (strlen %s))", k.T, m.T)), x.Pos(), "string index")
		r := fmt.Sprintf("(strbyte %s %s)", m.T, k.T)
		u.fact(and(fmt.Sprintf("(<= 0 %s)", r), fmt.Sprintf("(<= %s 255)", r)))
		return term(r, x.Type())
	}
	mt := x.X.Type().Underlying().(*types.Map)
	kt := fr.asTerm(k, st)
	if isIface(mt.Key()) {
		u.oblige(fr, st, "ifaceeq", "mapkey", fmt.Sprintf("(comparable (ityp %s))", kt), x.Pos(), "map key of uncomparable dynamic type panics")
	}
	dom := fmt.Sprintf("(select %s %s)", u.mapDom(st, mt, m.T), kt)
	in := and(fmt.Sprintf("(distinct %s nil)", m.T), dom)
	v := ite(in, fmt.Sprintf("(select %s %s)", u.mapVal(st, mt, m.T), kt), u.w.zero(mt.Elem()))
	res := fr.named(x, v, mt.Elem())
	for _, f := range u.wfFacts(st, res.T, mt.Elem(), 0) {
		u.fact(f)
	}
	if u.nonnilElem(mt.Elem()) {
		u.fact(implies(and(in, fmt.Sprintf("(< (birth %s) %s)", m.T, u.entryNow)), u.nonnilFact(res.T, mt.Elem())))
	}
	u.closedPreMap(mt, m.T, kt)
	if x.CommaOk {
		okc := u.w.newConst("ok:"+x.Name(), "Bool")
		u.fact(eq(okc, in))
		return &Val{K: vTuple, Elems: []*Val{res, term(okc, types.Typ[types.Bool])}}
	}
	return res
}

func (fr *Frame) mapUpdate(x *ssa.MapUpdate, st *State) {
	u := fr.u
	m := fr.val(x.Map)
	mt := x.Map.Type().Underlying().(*types.Map)
	k := fr.asTerm(fr.val(x.Key), st)
	v := fr.asTerm(fr.val(x.Value), st)
	u.oblige(fr, st, "nilmap", "", fmt.Sprintf("(distinct %s nil)", m.T), x.Pos(), "assignment to entry in nil map")
	if isIface(mt.Key()) {
		u.oblige(fr, st, "ifaceeq", "mapkey", fmt.Sprintf("(comparable (ityp %s))", k), x.Pos(), "map key of uncomparable dynamic type panics")
	}
	fr.frameCheckRef(st, m.T, "map", x.Pos())
	// insert-only protected maps: an existing entry is never overwritten
	for _, a := range u.insertOnlyAddrs {
		// only maps of the same static type can be the protected map
		if len(a.Sels) > 0 {
			last := a.Sels[len(a.Sels)-1]
			if stt, ok := last.cont.Underlying().(*types.Struct); ok && last.field >= 0 && last.field < stt.NumFields() {
				if !types.Identical(stt.Field(last.field).Type().Underlying(), mt) {
					continue
				}
			}
		}
		cur := u.loadAddr(st, a)
		u.oblige(fr, st, "insertonly", "", implies(eq(cur, m.T), not(fmt.Sprintf("(select %s %s)", u.mapDom(st, mt, m.T), k))), x.Pos(), "an entry of an insert-only protected map is overwritten (lost update if another goroutine inserted it)")
		break
	}
	u.mapStore(st, mt, m.T, k, v)
}

func (u *Unit) mapStore(st *State, mt *types.Map, m, k, v string) {
	kd, kv, kl := u.regM(mt)
	dom := u.mapDom(st, mt, m)
	had := fmt.Sprintf("(select %s %s)", dom, k)
	ln := u.mapLen(st, mt, m)
	hl := u.heapOf(st, kl)
	st.heap[kl] = u.nameHeap(kl, fmt.Sprintf("(store %s %s (ite %s %s (+ %s 1)))", hl, m, had, ln, ln))
	hd := u.heapOf(st, kd)
	st.heap[kd] = u.nameHeap(kd, fmt.Sprintf("(store %s %s (store %s %s true))", hd, m, dom, k))
	hv := u.heapOf(st, kv)
	st.heap[kv] = u.nameHeap(kv, fmt.Sprintf("(store %s %s (store %s %s %s))", hv, m, u.mapVal(st, mt, m), k, v))
}

func (u *Unit) mapDelete(st *State, mt *types.Map, m, k string) {
	kd, _, kl := u.regM(mt)
	dom := u.mapDom(st, mt, m)
	had := fmt.Sprintf("(select %s %s)", dom, k)
	ln := u.mapLen(st, mt, m)
	hl := u.heapOf(st, kl)
	st.heap[kl] = u.nameHeap(kl, fmt.Sprintf("(store %s %s (ite %s (- %s 1) %s))", hl, m, had, ln, ln))
	hd := u.heapOf(st, kd)
	st.heap[kd] = u.nameHeap(kd, fmt.Sprintf("(store %s %s (store %s %s false))", hd, m, dom, k))
}

func (fr *Frame) rangeOp(x *ssa.Range, st *State) *Val {
	u := fr.u
	v := fr.val(x.X)
	it := &iterState{id: fmt.Sprintf("%s.%s", fr.fn.Name(), x.Name())}
	if isString(x.X.Type()) {
		it.isStr = true
		it.strTerm = v.T
		gk := "visited:" + it.id
		u.ghostSort[gk] = "Int"
		st.ghost[gk] = "0"
		return &Val{K: vIter, It: it}
	}
	mt := x.X.Type().Underlying().(*types.Map)
	it.mapRef = v.T
	it.mapTy = mt
	gk := "visited:" + it.id
	u.ghostSort[gk] = fmt.Sprintf("(Array %s Bool)", u.w.sortOf(mt.Key()))
	st.ghost[gk] = fmt.Sprintf("((as const (Array %s Bool)) false)", u.w.sortOf(mt.Key()))
	return &Val{K: vIter, It: it}
}

func (fr *Frame) nextOp(x *ssa.Next, st *State) *Val {
	u := fr.u
	iv := fr.val(x.Iter)
	if iv.K != vIter {
		u.unsupportedf("next on non-iterator")
	}
	it := iv.It
	gk := "visited:" + it.id
	ok := u.w.newConst("next.ok:"+x.Name(), "Bool")
	if it.isStr {
		pos := st.ghost[gk]
		u.fact(eq(ok, fmt.Sprintf("(< %s (strlen %s))", pos, it.strTerm)))
		np := u.w.newConst("strpos", "Int")
		u.fact(implies(ok, and(fmt.Sprintf("(> %s %s)", np, pos), fmt.Sprintf("(<= %s (strlen %s))", np, it.strTerm))))
		u.fact(implies(not(ok), eq(np, pos)))
		st.ghost[gk] = np
		r := u.w.newConst("rune", "Int")
		u.fact(and(fmt.Sprintf("(<= 0 %s)", r), fmt.Sprintf("(<= %s 1114111)", r)))
		return &Val{K: vTuple, Elems: []*Val{term(ok, types.Typ[types.Bool]), term(pos, types.Typ[types.Int]), term(r, types.Typ[types.Rune])}}
	}
	mt := it.mapTy
	ks := u.w.sortOf(mt.Key())
	k := u.w.newConst("next.k:"+x.Name(), ks)
	visited := st.ghost[gk]
	dom := u.mapDom(st, mt, it.mapRef)
	nonnil := fmt.Sprintf("(distinct %s nil)", it.mapRef)
	u.fact(implies(ok, and(nonnil, fmt.Sprintf("(select %s %s)", dom, k), not(fmt.Sprintf("(select %s %s)", visited, k)))))
	// exhaustion: every key of the map has been visited
	if u.quantOK {
		u.fact(implies(and(not(ok), nonnil), fmt.Sprintf("(forall ((qk %s)) (! (=> (select %s qk) (select %s qk)) :pattern ((select %s qk)) :pattern ((select %s qk))))", ks, dom, visited, visited, dom)))
	}
	// a non-empty map has a key, and exhaustion covers that key as well (a ground instance of the exhaustion
	// fact: needs no quantifier)
	wk := u.w.newConst("somekey:"+x.Name(), ks)
	u.fact(implies(and(nonnil, fmt.Sprintf("(> %s 0)", u.mapLen(st, mt, it.mapRef))), fmt.Sprintf("(select %s %s)", dom, wk)))
	u.fact(implies(and(not(ok), nonnil, fmt.Sprintf("(select %s %s)", dom, wk)), fmt.Sprintf("(select %s %s)", visited, wk)))
	// the store index of a recognised indexed key enumeration counts the completed iterations of a range over a map
	// that the loop does not modify: while there is a next key it is below len(m)
	if ie := fr.idxEnumeration(x.Block()); ie != nil && ie.nx == x {
		if c, have := fr.vals[ie.counter]; have && c.K == vTerm {
			u.fact(implies(ok, and(fmt.Sprintf("(<= 0 %s)", c.T), fmt.Sprintf("(< %s %s)", c.T, u.mapLen(st, mt, it.mapRef)))))
			u.assume[idxEnumAssumption] = true
		}
	}
	v := fr.named(x, fmt.Sprintf("(select %s %s)", u.mapVal(st, mt, it.mapRef), k), mt.Elem())
	for _, f := range u.wfFacts(st, k, mt.Key(), 0) {
		u.fact(f)
	}
	for _, f := range u.wfFacts(st, v.T, mt.Elem(), 0) {
		u.fact(f)
	}
	if u.nonnilElem(mt.Elem()) {
		u.fact(implies(and(ok, fmt.Sprintf("(< (birth %s) %s)", it.mapRef, u.entryNow)), u.nonnilFact(v.T, mt.Elem())))
	}
	u.closedPreMap(mt, it.mapRef, k)
	nv := u.w.newConst("visited", u.ghostSort[gk])
	u.fact(eq(nv, ite(ok, fmt.Sprintf("(store %s %s true)", visited, k), visited)))
	st.ghost[gk] = nv
	return &Val{K: vTuple, Elems: []*Val{term(ok, types.Typ[types.Bool]), term(k, mt.Key()), v}}
}

// ---------------------------------------------------------------------------------------------
// Slices
// ---------------------------------------------------------------------------------------------

func (fr *Frame) sliceOp(x *ssa.Slice, st *State) *Val {
	u := fr.u
	v := fr.val(x.X)
	get := func(e ssa.Value, def string) string {
		if e == nil {
			return def
		}
		return fr.val(e).T
	}
	switch xt := x.X.Type().Underlying().(type) {
	case *types.Slice:
		lo := get(x.Low, "0")
		hi := get(x.High, fmt.Sprintf("(slen %s)", v.T))
		mx := get(x.Max, fmt.Sprintf("(scap %s)", v.T))
		u.oblige(fr, st, "idx", "slice", and(fmt.Sprintf("(<= 0 %s)", lo), fmt.Sprintf("(<= %s %s)", lo, hi), fmt.Sprintf("(<= %s %s)", hi, mx), fmt.Sprintf("(<= %s (scap %s))", mx, v.T)), x.Pos(), "slice bounds out of range")
		return fr.named(x, fmt.Sprintf("(mkSlice (sdata %s) (+ (soff %s) %s) (- %s %s) (- %s %s))", v.T, v.T, lo, hi, lo, mx, lo), x.Type())
	case *types.Pointer:
		at := xt.Elem().Underlying().(*types.Array)
		a := fr.derefBase(v, st, x.Pos(), "slice")
		if len(a.Sels) != 0 {
			u.unsupportedf("slicing an embedded array")
		}
		n := fmt.Sprintf("%d", at.Len())
		lo := get(x.Low, "0")
		hi := get(x.High, n)
		mx := get(x.Max, n)
		u.oblige(fr, st, "idx", "slice", and(fmt.Sprintf("(<= 0 %s)", lo), fmt.Sprintf("(<= %s %s)", lo, hi), fmt.Sprintf("(<= %s %s)", hi, mx), fmt.Sprintf("(<= %s %s)", mx, n)), x.Pos(), "slice bounds out of range")
		res := fr.named(x, fmt.Sprintf("(mkSlice %s %s (- %s %s) (- %s %s))", a.Ref, lo, hi, lo, mx, lo), x.Type())
		if x.Low == nil && x.High == nil && x.Max == nil {
			u.sliceConstLen[res.T] = int(at.Len())
			u.fact(eq(fmt.Sprintf("(slen %s)", res.T), n))
		}
		return res
	case *types.Basic:
		// substring
		lo := get(x.Low, "0")
		hi := get(x.High, fmt.Sprintf("(strlen %s)", v.T))
		u.oblige(fr, st, "idx", "substr", and(fmt.Sprintf("(<= 0 %s)", lo), fmt.Sprintf("(<= %s %s)", lo, hi), fmt.Sprintf("(<= %s (strlen %s))", hi, v.T)), x.Pos(), "substring bounds out of range")
		u.w.declFun("substr", []string{"Str", "Int", "Int"}, "Str")
		r := fr.named(x, fmt.Sprintf("(substr %s %s %s)", v.T, lo, hi), x.Type())
		u.fact(eq(fmt.Sprintf("(strlen %s)", r.T), fmt.Sprintf("(- %s %s)", hi, lo)))
		return r
	}
	u.unsupportedf("slice of %v", x.X.Type())
	return nil
}

// sliceElem reads s[i]
func (u *Unit) sliceElem(st *State, elem types.Type, s string, i string) string {
	key := u.regA(elem)
	return fmt.Sprintf("(select %s (+ (soff %s) %s))", u.sel1(u.heapOf(st, key), fmt.Sprintf("(sdata %s)", s)), s, i)
}

// appendOp: append(s, t...) ; the result is always modelled as a fresh backing array holding s ++ t
// when capacity is exceeded, and as the old backing array otherwise.
func (fr *Frame) appendOp(s, t *Val, elem types.Type, st *State, pos token.Pos) *Val {
	u := fr.u
	key := u.regA(elem)
	h := u.heapOf(st, key)
	es := u.w.sortOf(elem)
	r := u.allocRef(st, "append")
	ls, lt := fmt.Sprintf("(slen %s)", s.T), fmt.Sprintf("(slen %s)", t.T)
	newArr := u.w.newConst("appendArr", fmt.Sprintf("(Array Int %s)", es))
	oldS := u.sel1(h, fmt.Sprintf("(sdata %s)", s.T))
	oldT := u.sel1(h, fmt.Sprintf("(sdata %s)", t.T))
	// contents of the result, quantified
	if u.quantOK {
		u.fact(fmt.Sprintf("(forall ((qi Int)) (! (=> (and (<= 0 qi) (< qi %s)) (= (select %s qi) (select %s (+ (soff %s) qi)))) :pattern ((select %s qi))))", ls, newArr, oldS, s.T, newArr))
		u.fact(fmt.Sprintf("(forall ((qi Int)) (=> (and (<= %s qi) (< qi (+ %s %s))) (= (select %s qi) (select %s (+ (soff %s) (- qi %s))))))", ls, ls, lt, newArr, oldT, t.T, ls))
	}
	// ground instances for small constant lengths are produced by the solver's matching
	fits := fmt.Sprintf("(<= (+ %s %s) (scap %s))", ls, lt, s.T)
	_ = fits
	// Sound simplification: Go may reuse the backing array when capacity allows; then cells of the old
	// array beyond len(s) are overwritten. We model the result as fresh memory when it does not fit and
	// report the in-place case as a write to the old backing array (frame check) when it fits and lt>0.
	inplace := and(fits, fmt.Sprintf("(> %s 0)", lt), fmt.Sprintf("(distinct (sdata %s) nil)", s.T), fmt.Sprintf("(> (scap %s) 0)", s.T))
	if u.checkFrame {
		u.oblige(fr, st, "frame", "append", implies(inplace, fmt.Sprintf("(>= (birth (sdata %s)) %s)", s.T, u.entryNow)), pos, "append may write into a shared backing array")
	}
	st.heap[key] = u.nameHeap(key, fmt.Sprintf("(store %s %s %s)", h, r, newArr))
	capc := u.w.newConst("appendCap", "Int")
	u.fact(fmt.Sprintf("(>= %s (+ %s %s))", capc, ls, lt))
	u.fact(fmt.Sprintf("(< %s 281474976710656)", capc))
	res := u.w.newConst("appendRes", "Slice")
	u.fact(eq(res, fmt.Sprintf("(mkSlice %s 0 (+ %s %s) %s)", r, ls, lt, capc)))
	u.note("append: result modelled as a fresh backing array (aliasing with the old array when capacity allows is not modelled)")
	return term(res, s.Ty)
}

// onlyAppended: every back-edge value of the slice phi p is append(p, ...)
func (fr *Frame) onlyAppended(h *ssa.BasicBlock, p *ssa.Phi) bool {
	n := 0
	for i, e := range p.Edges {
		if !fr.backEdge[[2]int{h.Preds[i].Index, h.Index}] {
			continue
		}
		n++
		c, ok := e.(*ssa.Call)
		if !ok {
			return false
		}
		b, ok := c.Call.Value.(*ssa.Builtin)
		if !ok || b.Name() != "append" || len(c.Call.Args) != 2 || c.Call.Args[0] != ssa.Value(p) {
			return false
		}
	}
	return n > 0
}

// keyEnumeration recognises `s := make([]K, 0, n); for k := range m { s = append(s, k) }`: the loop with header h
// ranges over the map m, its body is one block executed once per key, and the slice phi p starts empty and
// receives exactly append(p, k). After the loop p enumerates the keys of m, each once.
func (fr *Frame) keyEnumeration(h *ssa.BasicBlock, p *ssa.Phi) (ssa.Value, bool) {
	body := fr.loopBody[h]
	if len(p.Edges) != 2 || len(body) != 2 {
		return nil, false
	}
	var init, step ssa.Value
	var bodyBlk *ssa.BasicBlock
	for i, e := range p.Edges {
		if fr.backEdge[[2]int{h.Preds[i].Index, h.Index}] {
			step, bodyBlk = e, h.Preds[i]
		} else {
			init = e
		}
	}
	if init == nil || step == nil || bodyBlk == h {
		return nil, false
	}
	switch x := init.(type) {
	case *ssa.MakeSlice:
		if c, ok := x.Len.(*ssa.Const); !ok || c.Int64() != 0 {
			return nil, false
		}
	case *ssa.Const:
		if !x.IsNil() {
			return nil, false
		}
	default:
		return nil, false
	}
	// header: t = next(range m); ok = extract t #0; if ok goto body else exit
	var nx *ssa.Next
	for _, in := range h.Instrs {
		if n, ok := in.(*ssa.Next); ok {
			nx = n
		}
	}
	if nx == nil || nx.IsString {
		return nil, false
	}
	rg, ok := nx.Iter.(*ssa.Range)
	if !ok {
		return nil, false
	}
	if _, ok := rg.X.Type().Underlying().(*types.Map); !ok {
		return nil, false
	}
	if iff, ok := h.Instrs[len(h.Instrs)-1].(*ssa.If); !ok || len(h.Succs) != 2 || h.Succs[0] != bodyBlk || iff == nil {
		return nil, false
	}
	// body: exactly one successor (the header); step = append(p, [k])
	if len(bodyBlk.Succs) != 1 || bodyBlk.Succs[0] != h {
		return nil, false
	}
	c, ok := step.(*ssa.Call)
	if !ok || c.Block() != bodyBlk {
		return nil, false
	}
	if b, ok := c.Call.Value.(*ssa.Builtin); !ok || b.Name() != "append" || len(c.Call.Args) != 2 || c.Call.Args[0] != ssa.Value(p) {
		return nil, false
	}
	sl, ok := c.Call.Args[1].(*ssa.Slice)
	if !ok || sl.Low != nil || sl.High != nil {
		return nil, false
	}
	al, ok := sl.X.(*ssa.Alloc)
	if !ok {
		return nil, false
	}
	at, ok := al.Type().(*types.Pointer).Elem().Underlying().(*types.Array)
	if !ok || at.Len() != 1 {
		return nil, false
	}
	// the single element stored into the variadic array is the key
	stores := 0
	okKey := false
	for _, in := range bodyBlk.Instrs {
		st, ok := in.(*ssa.Store)
		if !ok {
			continue
		}
		ia, ok := st.Addr.(*ssa.IndexAddr)
		if !ok || ia.X != ssa.Value(al) {
			continue
		}
		stores++
		if ex, ok := st.Val.(*ssa.Extract); ok && ex.Tuple == ssa.Value(nx) && ex.Index == 1 {
			okKey = true
		}
	}
	if stores != 1 || !okKey {
		return nil, false
	}
	return rg.X, true
}

type enumInfo struct {
	mapT    string
	mt      *types.Map
	h       *ssa.BasicBlock
	fr      *Frame
	indexed bool // filled by indexed stores into a pre-sized slice (not a loop-carried value)
}

const idxEnumAssumption = "a slice made with len(m) elements that receives the key at a store index counting from 0 in each iteration of a complete range over the unmodified map m enumerates the keys of m, each once, and the index stays below len(m) (recognised syntactically on the SSA of the loop)"

type idxEnum struct {
	slice, mapv ssa.Value
	counter     *ssa.Phi
	nx          *ssa.Next
}

// idxEnumeration recognises `s := make([]K, len(m)); i := 0; for k := range m { s[i] = k; i++ }`: the loop with header
// h ranges over the map m, its only loop-carried value is the counter i (from 0, +1 per iteration), its body is one
// block that does nothing but store the key at s[i], s has exactly len(m) elements, and s is not used anywhere else
// before the loop has finished.
func (fr *Frame) idxEnumeration(h *ssa.BasicBlock) *idxEnum {
	if h == nil {
		return nil
	}
	if r, ok := fr.idxEnums[h]; ok {
		return r
	}
	if fr.idxEnums == nil {
		fr.idxEnums = map[*ssa.BasicBlock]*idxEnum{}
	}
	r := fr.idxEnumeration1(h)
	fr.idxEnums[h] = r
	return r
}

func (fr *Frame) idxEnumeration1(h *ssa.BasicBlock) *idxEnum {
	body := fr.loopBody[h]
	if len(body) != 2 || len(h.Succs) != 2 {
		return nil
	}
	var phis []*ssa.Phi
	var nx *ssa.Next
	for _, in := range h.Instrs {
		switch in := in.(type) {
		case *ssa.Phi:
			phis = append(phis, in)
		case *ssa.Next:
			nx = in
		}
	}
	cs := fr.countingPhis(h)
	if len(phis) != 1 || len(cs) != 1 || cs[0] != phis[0] || nx == nil || nx.IsString {
		return nil
	}
	c := cs[0]
	rg, ok := nx.Iter.(*ssa.Range)
	if !ok || body[rg.Block()] {
		return nil
	}
	if _, ok := rg.X.Type().Underlying().(*types.Map); !ok {
		return nil
	}
	bodyBlk := h.Succs[0]
	if !body[bodyBlk] || bodyBlk == h || len(bodyBlk.Succs) != 1 || bodyBlk.Succs[0] != h {
		return nil
	}
	if _, ok := h.Instrs[len(h.Instrs)-1].(*ssa.If); !ok {
		return nil
	}
	var slice ssa.Value
	var ia *ssa.IndexAddr
	stores := 0
	for _, in := range bodyBlk.Instrs {
		switch in := in.(type) {
		case *ssa.DebugRef, *ssa.Jump:
		case *ssa.Extract:
			if in.Tuple != ssa.Value(nx) {
				return nil
			}
		case *ssa.IndexAddr:
			if ia != nil || in.Index != ssa.Value(c) {
				return nil
			}
			ia, slice = in, in.X
		case *ssa.Store:
			ex, ok := in.Val.(*ssa.Extract)
			if !ok || ex.Tuple != ssa.Value(nx) || ex.Index != 1 || ia == nil || in.Addr != ssa.Value(ia) {
				return nil
			}
			stores++
		case *ssa.BinOp:
			if in.Op != token.ADD || in.X != ssa.Value(c) {
				return nil
			}
		default:
			return nil
		}
	}
	if stores != 1 || slice == nil {
		return nil
	}
	ms, ok := slice.(*ssa.MakeSlice)
	if !ok || body[ms.Block()] || ms.Len != ms.Cap {
		return nil
	}
	ln, ok := ms.Len.(*ssa.Call)
	if !ok {
		return nil
	}
	if b, ok := ln.Call.Value.(*ssa.Builtin); !ok || b.Name() != "len" || len(ln.Call.Args) != 1 || ln.Call.Args[0] != rg.X {
		return nil
	}
	// every other use of the slice comes after the loop has finished
	if ms.Referrers() == nil {
		return nil
	}
	for _, ref := range *ms.Referrers() {
		if ref == ssa.Instruction(ia) {
			continue
		}
		if _, ok := ref.(*ssa.DebugRef); ok {
			continue
		}
		if body[ref.Block()] || !h.Dominates(ref.Block()) {
			return nil
		}
	}
	return &idxEnum{slice: slice, mapv: rg.X, counter: c, nx: nx}
}

// sortedKeyFn: (m, i) -> the i-th smallest key of map m
func (u *Unit) sortedKeyFn(mt *types.Map) string {
	ks := u.w.sortOf(mt.Key())
	return u.fn("sortedkey_"+sortShort(ks), []string{"Ref", "Int"}, ks)
}

// allocatedIn: the backing array of the slice value v was certainly allocated inside the given blocks
func allocatedIn(v ssa.Value, body map[*ssa.BasicBlock]bool, seen map[ssa.Value]bool) bool {
	if seen[v] {
		return true
	}
	seen[v] = true
	switch x := v.(type) {
	case *ssa.MakeSlice:
		return body[x.Block()]
	case *ssa.Slice:
		return allocatedIn(x.X, body, seen)
	case *ssa.Phi:
		if !body[x.Block()] {
			return false
		}
		for _, e := range x.Edges {
			if !allocatedIn(e, body, seen) {
				return false
			}
		}
		return true
	case *ssa.Call:
		if b, ok := x.Call.Value.(*ssa.Builtin); ok && b.Name() == "append" && body[x.Block()] {
			return allocatedIn(x.Call.Args[0], body, seen)
		}
	}
	return false
}

// definedOutside: the value is computed before the loop with the given body is entered
func definedOutside(v ssa.Value, body map[*ssa.BasicBlock]bool) bool {
	switch x := v.(type) {
	case *ssa.Parameter, *ssa.FreeVar, *ssa.Const, *ssa.Global:
		return true
	case ssa.Instruction:
		return x.Block() != nil && !body[x.Block()]
	}
	return false
}
