package main

import (
	"fmt"
	"go/token"
	"go/types"
	"strings"

	"golang.org/x/tools/go/ssa"
)

// ---------------------------------------------------------------------------------------------
// defer / recover
// ---------------------------------------------------------------------------------------------

// recovering: this frame has a deferred closure that calls recover()
func (fr *Frame) recovering() bool {
	if fr.recoverKnown {
		return fr.recoverYes
	}
	fr.recoverKnown = true
	for _, b := range fr.fn.Blocks {
		for _, in := range b.Instrs {
			d, ok := in.(*ssa.Defer)
			if !ok {
				continue
			}
			var f *ssa.Function
			switch v := d.Call.Value.(type) {
			case *ssa.MakeClosure:
				f = v.Fn.(*ssa.Function)
			case *ssa.Function:
				f = v
			}
			if f != nil && callsRecover(f) {
				fr.recoverYes = true
			}
		}
	}
	return fr.recoverYes
}

func callsRecover(f *ssa.Function) bool {
	for _, b := range f.Blocks {
		for _, in := range b.Instrs {
			if c, ok := in.(*ssa.Call); ok {
				if bi, ok := c.Call.Value.(*ssa.Builtin); ok && bi.Name() == "recover" {
					return true
				}
			}
		}
	}
	return false
}

// recoveringFrame: nearest enclosing activation that recovers panics
func (fr *Frame) recoveringFrame() *Frame {
	for f := fr; f != nil; f = f.parent {
		if f.recovering() && !f.inDefers {
			return f
		}
	}
	return nil
}

func (fr *Frame) runDefersIfAny(st *State) {}

func (fr *Frame) runDefers(st *State) {
	fr.execDefers(st, term("nilIface", anyType))
}

func (fr *Frame) execDefers(st *State, rec *Val) {
	u := fr.u
	fr.inDefers = true
	defer func() { fr.inDefers = false }()
	for i := len(fr.defers) - 1; i >= 0; i-- {
		d := fr.defers[i]
		if d.Block().Index != 0 && fr.deferConds[i] != fr.entryPc {
			// a defer statement that is not reached on every path: the deferred call runs only on the paths
			// that registered it
			reg, unreg := st.clone(), st.clone()
			reg.pc = and(st.pc, fr.deferConds[i])
			unreg.pc = and(st.pc, not(fr.deferConds[i]))
			fr.execOneDefer(d, reg, rec)
			*st = *u.merge([]*State{reg, unreg}, fr.fn.Name()+":defer")
			continue
		}
		fr.execOneDefer(d, st, rec)
	}
}

func (fr *Frame) execOneDefer(d *ssa.Defer, st *State, rec *Val) {
	u := fr.u
	c := d.Common()
	var args []*Val
	for _, a := range c.Args {
		args = append(args, fr.val(a))
	}
	if c.IsInvoke() {
		fr.invoke(c, fr.val(c.Value), args, st, d.Pos(), c.Signature().Results())
		return
	}
	if _, ok := c.Value.(*ssa.Builtin); ok {
		fr.call(d, c, st)
		return
	}
	callee := c.StaticCallee()
	if callee == nil {
		u.unsupportedf("defer of dynamic function")
	}
	var binds []*Val
	if mc, ok := c.Value.(*ssa.MakeClosure); ok {
		for _, b := range mc.Bindings {
			binds = append(binds, fr.val(b))
		}
	}
	if len(callee.Blocks) > 0 && callsRecover(callee) {
		sub := &Frame{u: u, fn: callee, vals: map[ssa.Value]*Val{}, depth: fr.depth + 1, ctx: fr.ctx, binds: binds, parent: fr,
			stack: append(append([]*ssa.Function{}, fr.stack...), fr.fn), recoverV: rec}
		for i, p := range callee.Params {
			sub.vals[p] = args[i]
		}
		exit, _ := sub.run(st)
		*st = *exit
		return
	}
	fr.staticCall(callee, binds, args, st, d.Pos(), c.Signature().Results())
}

// finishPanics: after the body has been executed, continue the recovered paths
func (fr *Frame) finishPanics() {
	u := fr.u
	if len(fr.panicked) == 0 || !fr.recovering() {
		return
	}
	sp := u.merge(fr.panicked, fr.fn.Name()+":panicked")
	fr.panicked = nil
	if sp.dead {
		return
	}
	rv := u.w.newConst("recovered", "Iface")
	u.fact(fmt.Sprintf("(distinct (ityp %s) T_nil)", rv))
	fr.execDefers(sp, term(rv, anyType))
	if sp.dead {
		return
	}
	// continue in the Recover block (returns the named results), or return zero values
	if rb := fr.fn.Recover; rb != nil {
		fr.edges[[2]int{-1, rb.Index}] = sp
		fr.recoverEntry = sp
		fr.runRecoverBlocks(rb, sp)
		return
	}
	var vs []*Val
	res := fr.fn.Signature.Results()
	for i := 0; i < res.Len(); i++ {
		vs = append(vs, term(u.w.zero(res.At(i).Type()), res.At(i).Type()))
	}
	fr.rets = append(fr.rets, retInfo{st: sp, vals: vs})
}

func (fr *Frame) runRecoverBlocks(rb *ssa.BasicBlock, sp *State) {
	// the recover block and its successors are straight-line in practice (load results, return)
	seen := map[*ssa.BasicBlock]bool{}
	var walk func(b *ssa.BasicBlock, st *State)
	walk = func(b *ssa.BasicBlock, st *State) {
		if seen[b] {
			fr.u.unsupportedf("loop in recover block")
		}
		seen[b] = true
		for _, in := range b.Instrs {
			if _, ok := in.(*ssa.Phi); ok {
				fr.u.unsupportedf("phi in recover block")
			}
			if st.dead {
				return
			}
			switch x := in.(type) {
			case *ssa.Jump:
				walk(b.Succs[0], st)
				return
			case *ssa.If:
				fr.u.unsupportedf("branch in recover block")
			default:
				_ = x
				fr.step(b, in, st)
			}
		}
	}
	walk(rb, sp)
}

// ---------------------------------------------------------------------------------------------
// goroutines, channels (minimal sequential abstraction)
// ---------------------------------------------------------------------------------------------

func (fr *Frame) goStmt(x *ssa.Go, st *State) {
	u := fr.u
	u.note("go statement: spawned goroutine is verified separately; its effects are not part of this function's VC")
	// the spawned function's preconditions must hold where it is spawned (its own unit assumes them)
	func() {
		var callee *ssa.Function
		var binds []*Val
		switch v := x.Common().Value.(type) {
		case *ssa.Function:
			callee = v
		case *ssa.MakeClosure:
			callee, _ = v.Fn.(*ssa.Function)
			for _, b := range v.Bindings {
				binds = append(binds, fr.val(b))
			}
		}
		if callee == nil {
			return
		}
		ct := u.eng.contractFor(callee)
		if ct == nil || len(ct.Requires) == 0 {
			return
		}
		defer func() {
			if r := recover(); r != nil {
				if ee, ok := r.(evalError); ok {
					u.oblige(fr, st, "pre", "go."+shortKey(fnKey(callee)), "false", x.Pos(), "precondition of spawned "+fnKey(callee)+" cannot be evaluated: "+ee.msg)
					return
				}
				panic(r)
			}
		}()
		env := &Env{vars: map[string]*Val{}, pkg: u.eng.pkgByName(ct.Pkg), cells: map[string]*Val{}}
		for i, a := range x.Common().Args {
			if i < len(callee.Params) {
				av := fr.val(a)
				env.vars[callee.Params[i].Name()] = av
				if i < len(ct.Params) {
					env.vars[ct.Params[i]] = av
				}
			}
		}
		for i, fv := range callee.FreeVars {
			if i < len(binds) {
				env.vars[fv.Name()] = binds[i]
				if _, isPtr := fv.Type().Underlying().(*types.Pointer); isPtr && binds[i].K == vTerm {
					delete(env.vars, fv.Name())
					env.cells[fv.Name()] = binds[i]
				}
			}
		}
		// the new goroutine holds no lock, whatever the spawning one holds
		sst := st.clone()
		for k := range sst.ghost {
			if strings.HasPrefix(k, "held:") {
				sst.ghost[k] = "false"
			}
		}
		for _, m := range u.eng.contracts.monitors {
			sst.ghost[heldKey(m, "")] = "false"
			u.ghostSort[heldKey(m, "")] = "Bool"
		}
		for i, r := range ct.Requires {
			g := fr.evalBool(r, env, sst, sst)
			u.oblige(fr, st, "pre", fmt.Sprintf("go.%s.%d", shortKey(fnKey(callee)), i+1), g, x.Pos(), "precondition of spawned "+fnKey(callee)+": "+r.src)
		}
	}()
	if callee := x.Common().StaticCallee(); callee != nil {
		gk := "spawned:" + fnKey(callee)
		u.ghostSort[gk] = "Int"
		cur := u.ghostOf(st, gk)
		n := u.w.newConst("spawned", "Int")
		u.fact(eq(n, fmt.Sprintf("(+ %s 1)", cur)))
		st.ghost[gk] = n
	}
}

// chanInvFor: the channel operand is loaded from field f of a struct type that declares a channel invariant
func (fr *Frame) chanInvFor(ch ssa.Value) *ChanInv {
	ld, ok := ch.(*ssa.UnOp)
	if !ok || ld.Op != token.MUL {
		return nil
	}
	fa, ok := ld.X.(*ssa.FieldAddr)
	if !ok {
		return nil
	}
	pt, ok := fa.X.Type().Underlying().(*types.Pointer)
	if !ok {
		return nil
	}
	n, ok := pt.Elem().(*types.Named)
	if !ok || n.Obj().Pkg() == nil {
		return nil
	}
	key := n.Obj().Pkg().Name() + "." + n.Obj().Name()
	fname := fieldName(pt.Elem(), fa.Field)
	for _, ci := range fr.u.eng.contracts.chaninvs {
		if ci.TypeName == key && ci.Field == fname {
			return ci
		}
	}
	return nil
}

func (fr *Frame) chanInvTerm(ci *ChanInv, v *Val, st *State) string {
	env := &Env{vars: map[string]*Val{ci.Var: v}, pkg: fr.u.eng.pkgByName(ci.Pkg)}
	return fr.evalBool(ci.Body, env, st, st)
}

func (fr *Frame) sendStmt(x *ssa.Send, st *State) {
	u := fr.u
	ch := fr.val(x.Chan)
	if ci := fr.chanInvFor(x.Chan); ci != nil {
		if sv := fr.val(x.X); sv != nil && sv.K == vTerm {
			u.oblige(fr, st, "chaninv", ci.Field, fr.chanInvTerm(ci, sv, st), x.Pos(), "value sent on "+ci.Field+" satisfies the channel invariant: "+ci.Body.src)
		}
	}
	gk := "sends"
	u.ghostSort[gk] = "(Array Ref Int)"
	cur := u.ghostOf(st, gk)
	n := u.w.newConst("sends", "(Array Ref Int)")
	u.fact(eq(n, fmt.Sprintf("(store %s %s (+ (select %s %s) 1))", cur, ch.T, cur, ch.T)))
	st.ghost[gk] = n
	// the last value sent on the channel, per sort of the element
	if sv := fr.val(x.X); sv != nil {
		vt := fr.asTerm(sv, st)
		srt := u.w.sortOf(x.X.Type())
		lk := "lastsent:" + sortShort(srt)
		u.ghostSort[lk] = fmt.Sprintf("(Array Ref %s)", srt)
		curl := u.ghostOf(st, lk)
		nl := u.w.newConst("lastsent", u.ghostSort[lk])
		u.fact(eq(nl, fmt.Sprintf("(store %s %s %s)", curl, ch.T, vt)))
		st.ghost[lk] = nl
	}
	// sending on a closed channel panics
	ck := "closed"
	u.ghostSort[ck] = "(Array Ref Bool)"
	u.oblige(fr, st, "closedsend", "", not(fmt.Sprintf("(select %s %s)", u.ghostOf(st, ck), ch.T)), x.Pos(), "send on closed channel")
}

func (fr *Frame) closeChan(ch *Val, st *State, pos token.Pos) {
	u := fr.u
	ck := "closed"
	u.ghostSort[ck] = "(Array Ref Bool)"
	cur := u.ghostOf(st, ck)
	u.oblige(fr, st, "nil", "close", fmt.Sprintf("(distinct %s nil)", ch.T), pos, "close of nil channel")
	u.oblige(fr, st, "doubleclose", "", not(fmt.Sprintf("(select %s %s)", cur, ch.T)), pos, "close of closed channel")
	n := u.w.newConst("closed", "(Array Ref Bool)")
	u.fact(eq(n, fmt.Sprintf("(store %s %s true)", cur, ch.T)))
	st.ghost[ck] = n
}

func (fr *Frame) recvOp(x *ssa.UnOp, ch *Val, st *State) *Val {
	u := fr.u
	ct := x.X.Type().Underlying().(*types.Chan)
	v := u.w.newConst("recv:"+x.Name(), u.w.sortOf(ct.Elem()))
	for _, f := range u.wfFacts(st, v, ct.Elem(), 0) {
		u.fact(f)
	}
	fr.bumpNow(st)
	if x.CommaOk {
		ok := u.w.newConst("recvok:"+x.Name(), "Bool")
		if ci := fr.chanInvFor(x.X); ci != nil {
			u.fact(implies(ok, fr.chanInvTerm(ci, term(v, ct.Elem()), st)))
		}
		return &Val{K: vTuple, Elems: []*Val{term(v, ct.Elem()), term(ok, types.Typ[types.Bool])}}
	}
	return term(v, ct.Elem())
}

func (fr *Frame) selectStmt(x *ssa.Select, st *State) *Val {
	u := fr.u
	idx := u.w.newConst("select:"+x.Name(), "Int")
	lo := 0
	if !x.Blocking {
		lo = -1
	}
	u.fact(and(fmt.Sprintf("(<= %d %s)", lo, idx), fmt.Sprintf("(< %s %d)", idx, len(x.States))))
	elems := []*Val{term(idx, types.Typ[types.Int]), term(u.w.newConst("recvok", "Bool"), types.Typ[types.Bool])}
	for i, s := range x.States {
		if s.Dir == types.RecvOnly {
			ct := s.Chan.Type().Underlying().(*types.Chan)
			v := u.w.newConst("selrecv", u.w.sortOf(ct.Elem()))
			for _, f := range u.wfFacts(st, v, ct.Elem(), 0) {
				u.fact(f)
			}
			elems = append(elems, term(v, ct.Elem()))
			// a value really received (not the zero value of a closed channel) satisfies the channel invariant
			if ci := fr.chanInvFor(s.Chan); ci != nil {
				u.fact(implies(and(eq(idx, fmt.Sprintf("%d", i)), elems[1].T), fr.chanInvTerm(ci, term(v, ct.Elem()), st)))
			}
		}
	}
	fr.bumpNow(st)
	return &Val{K: vTuple, Elems: elems}
}

// monitorFor: the monitor declared for the struct type that owns an address (mutex field or protected field)
func (u *Unit) monitorFor(a *Val) (*Monitor, string) {
	if a == nil || a.K != vAddr || len(a.Sels) == 0 || a.Cell == nil {
		return nil, ""
	}
	last := a.Sels[len(a.Sels)-1]
	if last.field < 0 {
		return nil, ""
	}
	n, ok := last.cont.(*types.Named)
	if !ok || n.Obj().Pkg() == nil {
		return nil, ""
	}
	key := n.Obj().Pkg().Name() + "." + n.Obj().Name()
	fname := fieldName(last.cont, last.field)
	for _, m := range u.eng.contracts.monitors {
		if m.TypeName == key {
			return m, fname
		}
	}
	return nil, ""
}

func heldKey(m *Monitor, ref string) string { return "held:" + m.TypeName + "." + m.Lock }

// syncOp: the lock discipline layer. Lock of a declared monitor: other goroutines may have changed the
// protected fields while the lock was not held (they are havocked), and the lock is now held. Unlock: released.
func (fr *Frame) syncOp(name string, st *State, args []*Val, pos token.Pos) *Val {
	u := fr.u
	if len(args) > 0 && args[0].K == vTerm {
		u.oblige(fr, st, "nil", "sync", fmt.Sprintf("(distinct %s nil)", args[0].T), pos, "sync primitive through a nil pointer")
	}
	if len(args) > 0 {
		if m, fname := u.monitorFor(args[0]); m != nil && fname == m.Lock {
			base := *args[0]
			base.Sels = base.Sels[:len(base.Sels)-1]
			cont := args[0].Sels[len(args[0].Sels)-1].cont
			switch {
			case strings.HasSuffix(name, ".Lock"):
				fr.monitorAcquire(m, &base, cont, st, false)
			case strings.HasSuffix(name, ".Unlock"):
				fr.monitorRelease(m, &base, cont, st, pos, "unlock")
			}
		} else if m, base, cont := u.condMonitor(args[0]); m != nil {
			// a condition variable of a declared monitor
			_, ub := "", ""
			_, _ = ub, base
			u.ghostSort["signalled"] = "(Array Ref Bool)"
			switch {
			case strings.HasSuffix(name, ".Signal"), strings.HasSuffix(name, ".Broadcast"):
				cur := u.ghostOf(st, "signalled")
				n := u.w.newConst("signalled", "(Array Ref Bool)")
				u.fact(eq(n, fmt.Sprintf("(store %s %s true)", cur, args[0].Ref)))
				st.ghost["signalled"] = n
			case strings.HasSuffix(name, ".Wait"):
				// Wait releases the lock (the monitor invariant must hold), sleeps until signalled, re-acquires
				if base != nil {
					fr.monitorRelease(m, base, cont, st, pos, "wait")
					fr.monitorAcquire(m, base, cont, st, true)
				} else {
					u.note("Cond.Wait on a monitor that was not locked in this function: state not havocked")
				}
				u.fact(implies(st.pc, fmt.Sprintf("(select %s %s)", u.ghostOf(st, "signalled"), args[0].Ref)))
				u.assume["sync.Cond.Wait returns only after Signal or Broadcast on that condition variable (Go semantics: no spurious wake-ups)"] = true
			}
		}
	}
	if h := u.monitorHook; h != nil {
		h(fr, name, st, args, pos)
	}
	return &Val{K: vNone}
}

// condMonitor: the address is a condition variable field that a monitor declares; returns the monitor and the
// struct (base address, type) whose lock was last acquired in this function
func (u *Unit) condMonitor(a *Val) (*Monitor, *Val, types.Type) {
	if a == nil || a.K != vAddr || len(a.Sels) == 0 {
		return nil, nil, nil
	}
	last := a.Sels[len(a.Sels)-1]
	n, ok := last.cont.(*types.Named)
	if !ok || n.Obj().Pkg() == nil || last.field < 0 {
		return nil, nil, nil
	}
	key := n.Obj().Pkg().Name() + "." + n.Obj().Name() + "." + fieldName(last.cont, last.field)
	for _, m := range u.eng.contracts.monitors {
		for _, c := range m.Conds {
			if c == key {
				if lb := u.lastMonBase[m]; lb != nil {
					return m, lb.base, lb.cont
				}
				return m, nil, nil
			}
		}
	}
	return nil, nil, nil
}

type monBase struct {
	base *Val
	cont types.Type
}

func (fr *Frame) monitorInvs(m *Monitor, base *Val, cont types.Type, st *State) []string {
	u := fr.u
	if len(m.Invs) == 0 || len(base.Sels) != 0 {
		return nil
	}
	self := term(base.Ref, types.NewPointer(cont))
	env := &Env{vars: map[string]*Val{m.InvVar: self}, pkg: u.eng.pkgByName(m.Pkg)}
	var out []string
	for _, inv := range m.Invs {
		out = append(out, fr.evalBool(inv, env, st, st))
	}
	return out
}

// monitorAcquire: the lock is taken. After a release in this function, other goroutines may have changed the
// protected fields and everything reachable only through them; the monitor invariant holds.
func (fr *Frame) monitorAcquire(m *Monitor, base *Val, cont types.Type, st *State, forceHavoc bool) {
	u := fr.u
	hk := heldKey(m, base.Ref)
	u.ghostSort[hk] = "Bool"
	stt := cont.Underlying().(*types.Struct)
	rk := "released:" + hk
	reacquired := st.ghost[rk] == "true" || forceHavoc
	for i := 0; i < stt.NumFields() && reacquired; i++ {
		for _, pf := range m.Protects {
			if stt.Field(i).Name() != pf {
				continue
			}
			fa := *base
			fa.Sels = append(append([]sel{}, base.Sels...), sel{field: i, cont: cont})
			if mt, ok := stt.Field(i).Type().Underlying().(*types.Map); ok {
				// the map object stays, its contents are whatever other goroutines left
				mref := u.loadAddr(st, &fa)
				kd, kv, kl := u.regM(mt)
				ks, vs := u.w.sortOf(mt.Key()), u.w.sortOf(mt.Elem())
				nd := u.w.newConst("lockedDom", fmt.Sprintf("(Array %s Bool)", ks))
				nv := u.w.newConst("lockedVal", fmt.Sprintf("(Array %s %s)", ks, vs))
				nl := u.w.newConst("lockedLen", "Int")
				u.fact(fmt.Sprintf("(>= %s 0)", nl))
				st.heap[kd] = u.nameHeap(kd, fmt.Sprintf("(store %s %s %s)", u.heapOf(st, kd), mref, nd))
				st.heap[kv] = u.nameHeap(kv, fmt.Sprintf("(store %s %s %s)", u.heapOf(st, kv), mref, nv))
				st.heap[kl] = u.nameHeap(kl, fmt.Sprintf("(store %s %s %s)", u.heapOf(st, kl), mref, nl))
				if _, seen := st.ghost["locked-once:"+hk]; seen {
					u.note("monitor re-acquired: protected state havocked again")
				}
				u.ghostSort["locked-once:"+hk] = "Bool"
				st.ghost["locked-once:"+hk] = "true"
			} else {
				nvv := u.w.newConst("locked:"+pf, u.w.sortOf(stt.Field(i).Type()))
				for _, f := range u.wfFacts(st, nvv, stt.Field(i).Type(), 0) {
					u.fact(f)
				}
				u.storeAddr(st, &fa, nvv)
			}
		}
	}
	if reacquired {
		for _, tn := range m.Types {
			if t, _ := u.eng.resolveType(u.eng.pkgByName(m.Pkg), strings.TrimPrefix(tn, m.Pkg+".")); t != nil {
				u.havocHeap(st, u.regT(t), true, nil)
			}
		}
	}
	st.ghost[hk] = "true"
	if u.lastMonBase == nil {
		u.lastMonBase = map[*Monitor]*monBase{}
	}
	b := *base
	u.lastMonBase[m] = &monBase{base: &b, cont: cont}
	for _, f := range fr.monitorInvs(m, base, cont, st) {
		u.fact(implies(st.pc, f))
	}
}

func (fr *Frame) monitorRelease(m *Monitor, base *Val, cont types.Type, st *State, pos token.Pos, what string) {
	u := fr.u
	hk := heldKey(m, base.Ref)
	u.ghostSort[hk] = "Bool"
	u.oblige(fr, st, "guarded", what, u.ghostOf(st, hk), pos, what+" of a mutex that is not held")
	for i, f := range fr.monitorInvs(m, base, cont, st) {
		u.oblige(fr, st, "lockinv", fmt.Sprintf("%s.%d", what, i+1), f, pos, "monitor invariant holds when the lock is released: "+m.Invs[i].src)
	}
	st.ghost[hk] = "false"
	u.ghostSort["released:"+hk] = "Bool"
	st.ghost["released:"+hk] = "true"
}

// guardedAccess: a protected field is touched: the monitor must be held
func (fr *Frame) guardedAccess(a *Val, st *State, pos token.Pos) {
	u := fr.u
	m, fname := u.monitorFor(a)
	if m == nil {
		return
	}
	for _, pf := range m.Protects {
		if pf == fname {
			hk := heldKey(m, a.Ref)
			u.ghostSort[hk] = "Bool"
			// memory allocated during this call is not shared yet
			u.oblige(fr, st, "guarded", fname, or(u.ghostOf(st, hk), fmt.Sprintf("(>= (birth %s) %s)", a.Ref, u.entryNow)), pos, "access to "+fname+" without holding "+m.Lock)
			// remember which map values come from insert-only fields
			for _, io := range m.InsertOnly {
				if io == fname {
					u.insertOnlyAddrs = append(u.insertOnlyAddrs, a)
				}
			}
			for _, nd := range m.NoDelete {
				if nd == fname {
					u.noDeleteAddrs = append(u.noDeleteAddrs, a)
				}
			}
		}
	}
}
