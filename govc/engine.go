package main

import (
	"fmt"
	"go/ast"
	"go/token"
	"go/types"
	"os"
	"path/filepath"
	"regexp"
	"sort"
	"strings"
	"sync"

	"golang.org/x/tools/go/packages"
	"golang.org/x/tools/go/ssa"
	"golang.org/x/tools/go/ssa/ssautil"
)

type Engine struct {
	repo            string
	fset            *token.FileSet
	prog            *ssa.Program
	pkgs            []*ssa.Package
	tpkgs           map[string]*types.Package
	contracts       *ContractSet
	funcs           map[string][]*ssa.Function // key -> functions (several instantiations possible)
	allFuncs        []*ssa.Function
	modsets         map[*ssa.Function]*modset
	impls           map[string][]implInfo
	forceInline     map[string]bool
	noInline        map[string]bool
	globals         map[*types.Var]*ssa.Global
	typeCache       map[string]types.Type
	msUnit          *Unit
	baseInline      map[string]bool // size-based inlining decisions recorded with the claims
	sizeDecisions   map[string]bool // decisions of this run (written with the claims)
	sizeMu          sync.Mutex
	baseLocals      map[string]map[string]string // recorded locators of local names (claims/locals.json)
	computingMS     bool
	knownGhostTypes map[string]types.Type // ghost arrays (Ref -> value) written by own functions: name -> element type
	keyInfos        map[string]keyInfo
	tparams         map[string]types.Type // type parameter names of the function being verified
	frameSet        map[string]bool       // functions whose frame is checked by their own unit in this run
}

type implInfo struct {
	fn   *ssa.Function
	recv types.Type
}

type modset struct {
	keys   map[string]bool // heap key -> may write pre-existing cells (open)
	ghosts map[string]bool
}

func loadEngine(repo string, patterns []string, dir string) (*Engine, error) {
	e := &Engine{repo: repo, funcs: map[string][]*ssa.Function{}, impls: map[string][]implInfo{},
		forceInline: map[string]bool{}, noInline: map[string]bool{}, tpkgs: map[string]*types.Package{}, globals: map[*types.Var]*ssa.Global{}, typeCache: map[string]types.Type{}}
	e.fset = token.NewFileSet()
	if abs, err := filepath.Abs(repo); err == nil {
		repoRootDir = strings.TrimSuffix(abs, "/")
	}
	cfg := &packages.Config{Mode: packages.LoadAllSyntax, Dir: dir, BuildFlags: []string{"-tags=verif"}, Fset: e.fset,
		Env: append(os.Environ(), "GOFLAGS=-mod=mod", "GOPROXY=off", "GOSUMDB=off", "GOTOOLCHAIN=local")}
	pkgs, err := packages.Load(cfg, patterns...)
	if err != nil {
		return nil, err
	}
	nerr := 0
	packages.Visit(pkgs, nil, func(p *packages.Package) {
		for _, er := range p.Errors {
			if nerr < 10 {
				fmt.Fprintln(os.Stderr, "load error:", er)
			}
			nerr++
		}
	})
	if nerr > 0 {
		return nil, fmt.Errorf("%d package load errors", nerr)
	}
	prog, spkgs := ssautil.AllPackages(pkgs, ssa.InstantiateGenerics|ssa.GlobalDebug)
	prog.Build()
	e.prog = prog
	var cfiles []string
	for i, sp := range spkgs {
		if sp == nil {
			continue
		}
		e.pkgs = append(e.pkgs, sp)
		e.tpkgs[sp.Pkg.Name()] = sp.Pkg
		for _, f := range pkgs[i].GoFiles {
			if filepath.Base(f) == "verif_contracts.go" {
				cfiles = append(cfiles, f)
			}
		}
	}
	// extra contract files kept in /verif (assumed interface specs etc.)
	e.contracts, err = loadContracts(cfiles)
	if err != nil {
		return nil, err
	}
	for fn := range ssautil.AllFunctions(prog) {
		if fn == nil {
			continue
		}
		p := fn.Pkg
		if p == nil && fn.Origin() != nil {
			p = fn.Origin().Pkg
		}
		if p == nil && fn.Parent() != nil {
			q := fn.Parent()
			for q.Parent() != nil {
				q = q.Parent()
			}
			p = q.Pkg
			if p == nil && q.Origin() != nil {
				p = q.Origin().Pkg
			}
		}
		if p == nil || !isOwnPkg(p.Pkg.Path()) {
			continue
		}
		if fn.Synthetic != "" && !strings.Contains(fn.Synthetic, "instance") {
			continue
		}
		if fn.TypeParams().Len() > 0 && len(fn.TypeArgs()) == 0 {
			continue // uninstantiated generic
		}
		k := fnKey(fn)
		e.funcs[k] = append(e.funcs[k], fn)
		e.allFuncs = append(e.allFuncs, fn)
	}
	for k := range e.funcs {
		fs := e.funcs[k]
		sort.Slice(fs, func(i, j int) bool { return fs[i].String() < fs[j].String() })
	}
	sort.Slice(e.allFuncs, func(i, j int) bool { return e.allFuncs[i].String() < e.allFuncs[j].String() })
	for _, sp := range e.pkgs {
		for _, m := range sp.Members {
			if g, ok := m.(*ssa.Global); ok {
				if v, ok := g.Object().(*types.Var); ok {
					e.globals[v] = g
				}
			}
		}
	}
	return e, nil
}

func (e *Engine) globalFor(v *types.Var) *ssa.Global { return e.globals[v] }

func (e *Engine) reflectValueType() types.Type {
	for _, p := range e.prog.AllPackages() {
		if p.Pkg.Path() == "reflect" {
			if o := p.Pkg.Scope().Lookup("Value"); o != nil {
				return o.Type()
			}
		}
	}
	return nil
}

func (e *Engine) pkgByName(n string) *types.Package { return e.tpkgs[n] }

func (e *Engine) anyPkg(t types.Type) *types.Package {
	if p, ok := t.(*types.Pointer); ok {
		t = p.Elem()
	}
	if n, ok := t.(*types.Named); ok && n.Obj().Pkg() != nil {
		return n.Obj().Pkg()
	}
	for _, p := range e.tpkgs {
		return p
	}
	return nil
}

// resolveType: Go type expression text -> types.Type ; or a spec-level sort
func (e *Engine) resolveType(pkg *types.Package, text string) (types.Type, string) {
	t, s := e.resolveTypeQuiet(pkg, text)
	if t == nil && s == "" {
		evalFail("cannot resolve type %q", text)
	}
	return t, s
}

func (e *Engine) resolveTypeQuiet(pkg *types.Package, text string) (types.Type, string) {
	text = strings.TrimSpace(text)
	switch text {
	case "TypeTag":
		return nil, "TypeTag"
	case "RV":
		return nil, "RV"
	case "Box":
		return nil, "Box"
	case "Ref":
		return nil, "Ref"
	}
	if strings.HasPrefix(text, "set[") && strings.HasSuffix(text, "]") {
		kt, ks := e.resolveTypeQuiet(pkg, text[4:len(text)-1])
		if ks == "" && kt != nil {
			ks = newWorld().sortOf(kt)
		}
		return nil, fmt.Sprintf("(Array %s Bool)", ks)
	}
	if t, ok := e.tparams[text]; ok {
		return t, ""
	}
	if pkg == nil {
		return nil, ""
	}
	if len(e.tparams) > 0 {
		for name, ta := range e.tparams {
			re := regexp.MustCompile(`\b` + regexp.QuoteMeta(name) + `\b`)
			text = re.ReplaceAllString(text, types.TypeString(ta, types.RelativeTo(pkg)))
		}
	}
	ck := pkg.Path() + "::" + text
	if t, ok := e.typeCache[ck]; ok {
		return t, ""
	}
	tv, err := types.Eval(e.fset, pkg, token.NoPos, text)
	if err != nil || !tv.IsType() {
		e.typeCache[ck] = nil
		return nil, ""
	}
	e.typeCache[ck] = tv.Type
	return tv.Type, ""
}

func (e *Engine) contractFor(f *ssa.Function) *Contract {
	if len(f.TypeArgs()) > 0 {
		// a contract written for one instantiation, e.g. OneOfSchema[int64].getTypedDiscriminator
		if ct, ok := e.contracts.funcs[instKey(f)]; ok {
			return ct
		}
	}
	return e.contracts.funcs[fnKey(f)]
}

func instKey(f *ssa.Function) string {
	k := fnKey(f)
	var as []string
	for _, a := range f.TypeArgs() {
		as = append(as, types.TypeString(a, func(p *types.Package) string { return p.Name() }))
	}
	// pkg.Type.Method -> pkg.Type[args].Method ; pkg.Func -> pkg.Func[args]
	parts := strings.Split(k, ".")
	if len(parts) == 3 {
		return parts[0] + "." + parts[1] + "[" + strings.Join(as, ",") + "]." + parts[2]
	}
	return k + "[" + strings.Join(as, ",") + "]"
}

// interface contract for method m of interface type t (looked up by the named interface and the
// interfaces it embeds)
func (e *Engine) ifaceContract(t types.Type, m string) *Contract {
	n, ok := t.(*types.Named)
	if !ok {
		return nil
	}
	pkg := ""
	if n.Obj().Pkg() != nil {
		pkg = n.Obj().Pkg().Name()
	}
	if ct, ok := e.contracts.ifaces[pkg+"."+n.Obj().Name()+"."+m]; ok {
		return ct
	}
	// embedded interfaces: any interface contract in the package whose interface has this method and
	// which t implements
	it, ok := n.Underlying().(*types.Interface)
	if !ok {
		return nil
	}
	var keys []string
	for k := range e.contracts.ifaces {
		keys = append(keys, k)
	}
	sort.Strings(keys)
	for _, k := range keys {
		ct := e.contracts.ifaces[k]
		parts := strings.Split(k, ".")
		if len(parts) != 3 || parts[2] != m {
			continue
		}
		p := e.tpkgs[parts[0]]
		if p == nil {
			continue
		}
		obj := p.Scope().Lookup(parts[1])
		if obj == nil {
			continue
		}
		oi, ok := obj.Type().Underlying().(*types.Interface)
		if !ok {
			continue
		}
		// t's method set includes all of oi's methods => t embeds (or is compatible with) oi
		if types.Implements(it, oi) || implementsIface(it, oi) {
			return ct
		}
	}
	return nil
}

func implementsIface(a, b *types.Interface) bool {
	for i := 0; i < b.NumMethods(); i++ {
		m := b.Method(i)
		obj, _, _ := types.LookupFieldOrMethod(a, false, m.Pkg(), m.Name())
		if obj == nil {
			return false
		}
	}
	return true
}

// interface contracts that a concrete method must satisfy
func (e *Engine) ifaceContractsFor(f *ssa.Function) []*Contract {
	recv := f.Signature.Recv()
	if recv == nil {
		return nil
	}
	var out []*Contract
	var keys []string
	for k := range e.contracts.ifaces {
		keys = append(keys, k)
	}
	sort.Strings(keys)
	for _, k := range keys {
		ct := e.contracts.ifaces[k]
		parts := strings.Split(k, ".")
		if len(parts) != 3 || parts[2] != f.Name() {
			continue
		}
		p := e.tpkgs[parts[0]]
		if p == nil {
			continue
		}
		obj := p.Scope().Lookup(parts[1])
		if obj == nil {
			continue
		}
		oi, ok := obj.Type().Underlying().(*types.Interface)
		if !ok {
			continue
		}
		if types.Implements(recv.Type(), oi) {
			out = append(out, ct)
		}
	}
	return out
}

// implementations of an interface method among the analysed packages
func (e *Engine) implementations(it types.Type, m *types.Func) []implInfo {
	key := types.TypeString(it, nil) + "." + m.Name()
	if r, ok := e.impls[key]; ok {
		return r
	}
	iface, ok := it.Underlying().(*types.Interface)
	var out []implInfo
	if ok {
		seen := map[string]bool{}
		for _, T := range e.prog.RuntimeTypes() {
			e.addImpl(&out, seen, T, iface, m)
		}
		for _, sp := range e.pkgs {
			for _, mem := range sp.Members {
				if tn, ok := mem.(*ssa.Type); ok {
					if _, isI := tn.Type().Underlying().(*types.Interface); isI {
						continue
					}
					if nt, ok := tn.Type().(*types.Named); ok && nt.TypeParams().Len() > 0 {
						continue
					}
					e.addImpl(&out, seen, tn.Type(), iface, m)
					e.addImpl(&out, seen, types.NewPointer(tn.Type()), iface, m)
				}
			}
		}
	}
	sort.Slice(out, func(i, j int) bool { return types.TypeString(out[i].recv, nil) < types.TypeString(out[j].recv, nil) })
	e.impls[key] = out
	return out
}

func (e *Engine) addImpl(out *[]implInfo, seen map[string]bool, T types.Type, iface *types.Interface, m *types.Func) {
	if _, isI := T.Underlying().(*types.Interface); isI {
		return
	}
	ts := types.TypeString(T, nil)
	if seen[ts] {
		return
	}
	if !types.Implements(T, iface) {
		return
	}
	seen[ts] = true
	sel := e.prog.MethodSets.MethodSet(T).Lookup(m.Pkg(), m.Name())
	if sel == nil {
		return
	}
	fn := e.prog.MethodValue(sel)
	if fn == nil {
		return
	}
	*out = append(*out, implInfo{fn: fn, recv: T})
}

// ---------------------------------------------------------------------------------------------
// modsets (which heap keys a function may write, transitively). Computed once for all functions of
// the analysed packages by fixpoint over the call graph (static callees, closures, all implementations
// of invoked interface methods). Library functions write nothing unless the stdlib table says so.
// ---------------------------------------------------------------------------------------------

type keyInfo struct {
	kind byte // 'T' cell of type ty, 'A' array of ty, 'M' map ty
	ty   types.Type
}

func (e *Engine) computeModsets() {
	e.msUnit = e.newUnit(nil)
	u := e.msUnit
	e.keyInfos = map[string]keyInfo{}
	local := map[*ssa.Function]*modset{}
	callees := map[*ssa.Function][]*ssa.Function{}
	cleanCallee := map[*ssa.Function]map[*ssa.Function]bool{}
	var funcs []*ssa.Function
	seen := map[*ssa.Function]bool{}
	var add func(f *ssa.Function)
	add = func(f *ssa.Function) {
		if f == nil || seen[f] || len(f.Blocks) == 0 {
			return
		}
		if !e.isOwnFunc(f) {
			return
		}
		seen[f] = true
		funcs = append(funcs, f)
		for _, af := range f.AnonFuncs {
			add(af)
		}
	}
	for _, f := range e.allFuncs {
		add(f)
	}
	// method wrappers and instantiations reachable from own functions
	for i := 0; i < len(funcs); i++ {
		f := funcs[i]
		ms := &modset{keys: map[string]bool{}, ghosts: map[string]bool{}}
		local[f] = ms
		tmp := &Frame{u: u, fn: f}
		regT := func(t types.Type) string { k := u.regT(t); e.keyInfos[k] = keyInfo{'T', t}; return k }
		regA := func(t types.Type) string { k := u.regA(t); e.keyInfos[k] = keyInfo{'A', t}; return k }
		regM := func(m *types.Map) (string, string, string) {
			a, b, c := u.regM(m)
			e.keyInfos[a], e.keyInfos[b], e.keyInfos[c] = keyInfo{'M', m}, keyInfo{'M', m}, keyInfo{'M', m}
			return a, b, c
		}
		for _, b := range f.Blocks {
			for _, in := range b.Instrs {
				switch x := in.(type) {
				case *ssa.Alloc:
					el := x.Type().(*types.Pointer).Elem()
					if at, ok := el.Underlying().(*types.Array); ok {
						addKey(ms, regA(at.Elem()), false)
					} else {
						addKey(ms, regT(el), false)
					}
				case *ssa.MakeSlice:
					addKey(ms, regA(x.Type().Underlying().(*types.Slice).Elem()), false)
				case *ssa.MakeMap:
					kd, kv, kl := regM(x.Type().Underlying().(*types.Map))
					addKey(ms, kd, false)
					addKey(ms, kv, false)
					addKey(ms, kl, false)
				case *ssa.Store:
					k, fresh := tmp.storeTarget(x.Addr, nil)
					if k != "" {
						if _, ok := e.keyInfos[k]; !ok {
							e.keyInfos[k] = tmp.lastKeyInfo
						}
						addKey(ms, k, !fresh)
					}
				case *ssa.MapUpdate:
					kd, kv, kl := regM(x.Map.Type().Underlying().(*types.Map))
					_, fresh := x.Map.(*ssa.MakeMap)
					addKey(ms, kd, !fresh)
					addKey(ms, kv, !fresh)
					addKey(ms, kl, !fresh)
				case *ssa.MakeClosure:
					if cf, ok := x.Fn.(*ssa.Function); ok {
						add(cf)
						// a closure that is only ever the operand of a go statement runs on another goroutine: its
						// writes are not effects of this function's own (sequential) execution
						onlySpawned := x.Referrers() != nil && len(*x.Referrers()) > 0
						if onlySpawned {
							for _, r := range *x.Referrers() {
								if g, ok := r.(*ssa.Go); !ok || g.Call.Value != ssa.Value(x) {
									onlySpawned = false
								}
							}
						}
						if !onlySpawned {
							callees[f] = append(callees[f], cf)
						}
					}
				case *ssa.Send:
					ms.ghosts["sends"] = true
					lsrt := u.w.sortOf(x.X.Type())
					ms.ghosts["lastsent:"+sortShort(lsrt)] = true
					if e.knownGhostTypes == nil {
						e.knownGhostTypes = map[string]types.Type{}
					}
					e.knownGhostTypes["lastsent:"+sortShort(lsrt)] = x.X.Type()
				case ssa.CallInstruction:
					c := x.Common()
					if bi, ok := c.Value.(*ssa.Builtin); ok {
						switch bi.Name() {
						case "append":
							if st, ok := c.Args[0].Type().Underlying().(*types.Slice); ok {
								addKey(ms, regA(st.Elem()), false)
							}
						case "delete":
							kd, _, kl := regM(c.Args[0].Type().Underlying().(*types.Map))
							addKey(ms, kd, true)
							addKey(ms, kl, true)
						case "copy":
							if st, ok := c.Args[0].Type().Underlying().(*types.Slice); ok {
								addKey(ms, regA(st.Elem()), true)
							}
						case "close":
							ms.ghosts["closed"] = true
						}
						continue
					}
					if c.IsInvoke() {
						if _, ok := stdIfaceModsets[ifaceMethodName(c)]; ok {
							continue
						}
						ct := e.ifaceContract(c.Value.Type(), c.Method.Name())
						for _, impl := range e.implementations(c.Value.Type(), c.Method) {
							add(impl.fn)
							callees[f] = append(callees[f], impl.fn)
							if ct != nil && ct.HasAssigns && len(ct.Assigns) == 0 {
								if cleanCallee[f] == nil {
									cleanCallee[f] = map[*ssa.Function]bool{}
								}
								cleanCallee[f][impl.fn] = true
							}
						}
						continue
					}
					if callee := c.StaticCallee(); callee != nil {
						if m, ok := stdModsets[extName(callee)]; ok {
							sub := m(u)
							for k, op := range sub.keys {
								addKey(ms, k, op)
							}
							continue
						}
						add(callee)
						callees[f] = append(callees[f], callee)
						// a counted callee bumps its ghost call counter
						if ct := e.contractFor(callee); ct != nil && ct.Counted {
							ms.ghosts["calls:"+ct.Key] = true
						}
						if ct := e.contractFor(callee); ct != nil && ct.HasAssigns && len(ct.Assigns) == 0 {
							if cleanCallee[f] == nil {
								cleanCallee[f] = map[*ssa.Function]bool{}
							}
							cleanCallee[f][callee] = true
						}
						continue
					}
					ms.ghosts["inv"] = true
				}
			}
		}
	}
	// fixpoint
	e.modsets = map[*ssa.Function]*modset{}
	for _, f := range funcs {
		ms := &modset{keys: map[string]bool{}, ghosts: map[string]bool{}}
		for k, v := range local[f].keys {
			ms.keys[k] = v
		}
		for g := range local[f].ghosts {
			ms.ghosts[g] = true
		}
		e.modsets[f] = ms
	}
	for changed := true; changed; {
		changed = false
		for _, f := range funcs {
			ms := e.modsets[f]
			for _, c := range callees[f] {
				sub := e.modsets[c]
				if sub == nil {
					continue
				}
				clean := cleanCallee[f][c]
				for k, op := range sub.keys {
					if clean {
						continue
					}
					old, had := ms.keys[k]
					if !had || (op && !old) {
						ms.keys[k] = op || old
						changed = true
					}
				}
				for g := range sub.ghosts {
					if !ms.ghosts[g] {
						ms.ghosts[g] = true
						changed = true
					}
				}
			}
		}
	}
}

type ssaFunc = ssa.Function

// unwrapSynthetic: promoted-method wrappers and thunks forward to one real method
func unwrapSynthetic(f *ssa.Function) *ssa.Function {
	for i := 0; i < 4 && f != nil && f.Synthetic != "" && !strings.Contains(f.Synthetic, "instance"); i++ {
		var target *ssa.Function
		n := 0
		for _, b := range f.Blocks {
			for _, in := range b.Instrs {
				if c, ok := in.(ssa.CallInstruction); ok {
					if callee := c.Common().StaticCallee(); callee != nil {
						target = callee
						n++
					}
				}
			}
		}
		if n != 1 {
			return f
		}
		f = target
	}
	return f
}

func (e *Engine) inFrameSet(f *ssa.Function) bool {
	if e.frameSet[fnKey(f)] {
		return true
	}
	if g := unwrapSynthetic(f); g != f && g != nil {
		return e.frameSet[fnKey(g)]
	}
	return false
}

// calleesOf: static callees, closures and all implementations of invoked interface methods
func (e *Engine) calleesOf(f *ssa.Function) []*ssa.Function {
	var out []*ssa.Function
	for _, b := range f.Blocks {
		for _, in := range b.Instrs {
			switch x := in.(type) {
			case *ssa.MakeClosure:
				if cf, ok := x.Fn.(*ssa.Function); ok {
					out = append(out, cf)
				}
			case ssa.CallInstruction:
				c := x.Common()
				if c.IsInvoke() {
					for _, impl := range e.implementations(c.Value.Type(), c.Method) {
						out = append(out, impl.fn)
					}
				} else if callee := c.StaticCallee(); callee != nil {
					out = append(out, callee)
				}
			}
		}
	}
	return out
}

func (e *Engine) isOwnFunc(f *ssa.Function) bool {
	for q := f; q != nil; q = q.Parent() {
		p := q.Pkg
		if p == nil && q.Origin() != nil {
			p = q.Origin().Pkg
		}
		if p != nil {
			return isOwnPkg(p.Pkg.Path())
		}
		if q.Parent() == nil {
			// synthetic wrapper: look at the receiver type / object
			if q.Object() != nil && q.Object().Pkg() != nil {
				return isOwnPkg(q.Object().Pkg().Path())
			}
			if q.Signature.Recv() != nil {
				t := q.Signature.Recv().Type()
				if pt, ok := t.(*types.Pointer); ok {
					t = pt.Elem()
				}
				if n, ok := t.(*types.Named); ok && n.Obj().Pkg() != nil {
					return isOwnPkg(n.Obj().Pkg().Path())
				}
			}
		}
	}
	return false
}

func (u *Unit) ensureKey(k string) {
	if _, ok := u.heapSorts[k]; ok {
		return
	}
	ki, ok := u.eng.keyInfos[k]
	if !ok {
		return
	}
	switch ki.kind {
	case 'T':
		u.regT(ki.ty)
	case 'A':
		u.regA(ki.ty)
	case 'M':
		u.regM(ki.ty.(*types.Map))
	}
}

func (e *Engine) modsetOf(u *Unit, f *ssa.Function) *modset {
	if e.modsets == nil || e.msUnit == nil {
		e.computeModsets()
	}
	if m, ok := stdModsets[extName(f)]; ok {
		return m(u)
	}
	ms := e.modsets[f]
	if ms == nil {
		return &modset{keys: map[string]bool{}, ghosts: map[string]bool{}}
	}
	for k := range ms.keys {
		u.ensureKey(k)
	}
	return ms
}

func addKey(ms *modset, k string, open bool) {
	if open {
		ms.keys[k] = true
	} else if _, ok := ms.keys[k]; !ok {
		ms.keys[k] = false
	}
}

func (e *Engine) callModset(u *Unit, c *ssa.CallCommon) *modset {
	if _, ok := c.Value.(*ssa.Builtin); ok {
		return &modset{keys: map[string]bool{}, ghosts: map[string]bool{}}
	}
	if c.IsInvoke() {
		return e.invokeModset(u, c)
	}
	if callee := c.StaticCallee(); callee != nil {
		ms := e.modsetOf(u, callee)
		if ct := e.contractFor(callee); ct != nil && ct.HasAssigns && len(ct.Assigns) == 0 {
			ms = closedCopy(ms)
		}
		return ms
	}
	return &modset{keys: map[string]bool{}, ghosts: map[string]bool{"inv": true}}
}

// a callee with a proved `assigns nothing` frame only allocates: allocation is modelled as revealing
// so-far unconstrained cells of the same heap, so no heap version changes at all
func closedCopy(ms *modset) *modset {
	return &modset{keys: map[string]bool{}, ghosts: ms.ghosts}
}

func (e *Engine) invokeModset(u *Unit, c *ssa.CallCommon) *modset {
	ms := &modset{keys: map[string]bool{}, ghosts: map[string]bool{}}
	if m, ok := stdIfaceModsets[ifaceMethodName(c)]; ok {
		return m(u)
	}
	ct := e.ifaceContract(c.Value.Type(), c.Method.Name())
	for _, impl := range e.implementations(c.Value.Type(), c.Method) {
		sub := e.modsetOf(u, impl.fn)
		for k, op := range sub.keys {
			if ct != nil && ct.HasAssigns && len(ct.Assigns) == 0 {
				continue
			}
			addKey(ms, k, op)
		}
		for g := range sub.ghosts {
			ms.ghosts[g] = true
		}
	}
	return ms
}

// ---------------------------------------------------------------------------------------------
// verification of one function
// ---------------------------------------------------------------------------------------------

type VerifyOpts struct {
	Frame     bool     // emit frame obligations even without an `assigns nothing` clause
	SweepOnly bool     // ignore functional clauses, only safety
	NoLoopInv bool     // declared loop invariants of the unit are not used
	NoInv     bool     // do not assume declared type invariants / nonnil declarations
	SkipInv   []string // type names whose invariants are not assumed
}

func (e *Engine) newUnit(fn *ssa.Function) *Unit {
	if e.modsets == nil && e.msUnit == nil && !e.computingMS && fn != nil {
		e.computingMS = true
		e.computeModsets()
		e.computingMS = false
	}
	u := &Unit{eng: e, w: newWorld(), fun: fn, name: unitName(fn), oblCount: map[string]int{}, heapSorts: map[string]string{}, heapElem: map[string]types.Type{},
		hver: map[string]*heapVersion{}, frameDone: map[string]bool{}, ghostSort: map[string]string{}, notes: map[string]bool{}, inlined: map[string]bool{},
		usedSpecs: map[string]bool{}, usedStd: map[string]bool{}, usedPure: map[string]bool{}, implIfaces: map[string]types.Type{}, assume: map[string]bool{}, usedContracts: map[string]bool{}, sliceConstLen: map[string]int{}, usedInvs: map[string]bool{}, hparents: map[string][]string{}, qsorts: map[string]string{}, ospecDone: map[string]bool{}}
	// ghost variables that callees may write must have a sort before the first call that havocs them
	u.ghostSort["closed"] = "(Array Ref Bool)"
	u.ghostSort["sends"] = "(Array Ref Int)"
	u.ghostSort["out"] = "(Array Ref Str)"
	if e.contracts != nil {
		for _, ct := range e.contracts.funcs {
			if ct.Counted {
				u.ghostSort["calls:"+ct.Key] = "Int"
			}
		}
	}
	if e.msUnit != nil && e.msUnit != u {
		for name, t := range e.knownGhostTypes {
			u.ghostSort[name] = fmt.Sprintf("(Array Ref %s)", u.w.sortOf(t))
		}
	}
	return u
}

func unitName(fn *ssa.Function) string {
	if fn == nil {
		return "<none>"
	}
	k := fnKey(fn)
	if len(fn.TypeArgs()) > 0 {
		var as []string
		for _, a := range fn.TypeArgs() {
			as = append(as, types.TypeString(a, func(p *types.Package) string { return p.Name() }))
		}
		k += "[" + strings.Join(as, ",") + "]"
	}
	return k
}

func (e *Engine) verify(fn *ssa.Function, opts VerifyOpts) (u *Unit) {
	u = e.newUnit(fn)
	defer func() {
		if r := recover(); r != nil {
			switch x := r.(type) {
			case unsupported:
				u.unsup = x.msg
			case evalError:
				u.unsup = "contract error: " + x.msg
			default:
				if os.Getenv("GOVC_PANIC") != "" {
					panic(r)
				}
				u.unsup = fmt.Sprintf("internal error: %v", r)
			}
		}
	}()
	e.tparams = map[string]types.Type{}
	if tps := fn.TypeParams(); tps != nil {
		for i := 0; i < tps.Len() && i < len(fn.TypeArgs()); i++ {
			e.tparams[tps.At(i).Obj().Name()] = fn.TypeArgs()[i]
		}
	}
	ct := e.contractFor(fn)
	ifcts := e.ifaceContractsFor(fn)
	if ct != nil {
		u.arithChecked = ct.Arith
	}
	u.quantOK = ct != nil && !opts.SweepOnly
	u.noInv = opts.NoInv
	u.noLoopInv = opts.NoLoopInv
	u.skipInv = map[string]bool{}
	for _, t := range opts.SkipInv {
		u.skipInv[t] = true
	}
	st := &State{pc: "true", heap: map[string]string{}, ghost: map[string]string{}}
	now0 := quote("now0")
	u.w.declFun(now0, nil, "Int")
	u.fact(fmt.Sprintf("(>= %s 0)", now0))
	st.now = now0
	u.entryNow = now0
	fr := &Frame{u: u, fn: fn, vals: map[ssa.Value]*Val{}, contract: ct}
	u.top = fr
	// parameters
	fr.ctVars = map[string]*Val{}
	var paramInvs []func()
	for i, p := range fn.Params {
		n := quote("p:" + p.Name())
		u.w.declFun(n, nil, u.w.sortOf(p.Type()))
		v := term(n, p.Type())
		fr.vals[p] = v
		for _, f := range u.wfFacts(st, n, p.Type(), 0) {
			u.fact(f)
		}
		fr.ctVars[p.Name()] = v
		if ct != nil && i < len(ct.Params) {
			fr.ctVars[ct.Params[i]] = v
		}
		if i == 0 && fn.Signature.Recv() != nil {
			if _, isPtr := p.Type().Underlying().(*types.Pointer); isPtr {
				u.fact(fmt.Sprintf("(distinct %s nil)", n))
				u.assume["pointer receivers are non-nil (every static call site in the analysed packages is checked for it; callers outside are assumed to comply)"] = true
			}
		}
		if invs := u.invsFor(p.Type()); len(invs) > 0 {
			paramInvs = append(paramInvs, func() { u.assumeInv(fr, invs, v, st, "true") })
		}
		u.watch = append(u.watch, n)
		u.watchName = append(u.watchName, p.Name())
	}
	for i, fv := range fn.FreeVars {
		n := quote("fv:" + fv.Name())
		u.w.declFun(n, nil, u.w.sortOf(fv.Type()))
		v := term(n, fv.Type())
		fr.binds = append(fr.binds, v)
		for _, f := range u.wfFacts(st, n, fv.Type(), 0) {
			u.fact(f)
		}
		fr.ctVars[fv.Name()] = v
		// go/ssa captures variables by reference: the free variable is the address of the variable's cell. In
		// contracts the source name means the variable, not its cell; the cell itself exists.
		if _, isPtr := fv.Type().Underlying().(*types.Pointer); isPtr {
			u.fact(fmt.Sprintf("(distinct %s nil)", n))
			delete(fr.ctVars, fv.Name())
			if fr.ctCells == nil {
				fr.ctCells = map[string]*Val{}
			}
			fr.ctCells[fv.Name()] = v
		}
		_ = i
	}
	fr.entry = st
	for _, f := range paramInvs {
		f()
	}
	// frame checking?
	if !opts.SweepOnly {
		if ct != nil && ct.HasAssigns && !ct.NoFrame {
			u.checkFrame = true
			if len(ct.Assigns) > 0 && !(opts.Frame && !ct.FrameCaller) {
				// in frame mode the declared assigns only excuse writes when the memory is the caller's
				// (framecaller); otherwise this unit itself answers for writes to pre-existing memory
				fr.setupAssignable(ct, st)
			}
		}
		for _, ic := range ifcts {
			if ic.HasAssigns && len(ic.Assigns) == 0 && (ct == nil || !ct.HasAssigns) && (ct == nil || !ct.NoFrame) {
				u.checkFrame = true
			}
		}
	}
	if opts.Frame {
		u.checkFrame = true
		u.frameMode = true
	}
	// preconditions
	env := fr.baseEnv()
	if !opts.SweepOnly || true {
		if ct != nil {
			for _, r := range ct.Requires {
				u.fact(fr.evalBool(r, env, st, st))
			}
			// scope clauses restrict the domain of the functional contract only: frame and safety modes judge
			// every path of the function
			if !opts.Frame && !opts.SweepOnly {
				for _, r := range ct.Scope {
					u.fact(fr.evalBool(r, env, st, st))
				}
			}
		}
		for _, ic := range ifcts {
			ienv := fr.ifaceEnv(ic, fn, st)
			for _, r := range ic.Requires {
				u.fact(fr.evalBool(r, ienv, st, st))
			}
		}
	}
	// axioms about abstract spec functions
	for _, ax := range e.contracts.axioms {
		func() {
			defer func() {
				if r := recover(); r != nil {
					if ee, ok := r.(evalError); ok {
						if aenvPkg := e.pkgByName(ax.Pkg); aenvPkg != nil && fn.Pkg != nil && fn.Pkg.Pkg == aenvPkg {
							// an axiom of the unit's own package that cannot be evaluated is a contract error
							u.note("axiom " + ax.Name + " cannot be evaluated: " + ee.msg)
							u.axiomErrs = append(u.axiomErrs, ax.Name+": "+ee.msg)
						}
						return
					}
					panic(r)
				}
			}()
			aenv := &Env{vars: map[string]*Val{}, pkg: e.pkgByName(ax.Pkg)}
			f := fr.evalBool(ax.Body, aenv, st, st)
			u.fact(f)
			u.assume["axiom "+ax.Name+": "+ax.Body.src] = true
		}()
	}
	exit, results := fr.runTop(st)
	u.exitPc = exit.pc
	for i, r := range fr.rets {
		pos := ""
		if i < len(fr.retPos) {
			pos = fr.retPos[i]
		}
		u.retPcs = append(u.retPcs, [2]string{r.st.pc, pos})
	}
	if exit.dead {
		u.exitPc = "false"
		return u
	}
	if u.frameMode {
		fr.autoFreshErrPost(exit, results)
	}
	// postconditions
	penv := fr.baseEnv()
	for h, ord := range fr.loopOrd {
		name := fmt.Sprintf("$idx%d", ord)
		for _, in := range h.Instrs {
			if p, ok := in.(*ssa.Phi); ok && p.Comment == "rangeindex" {
				if v, ok := fr.vals[p]; ok {
					penv.vars[name] = v
				}
			}
		}
		// a loop over a reflect map iterator: at a return from the body the position is the current index, after the
		// loop it is the length; `$idxN + 1` reads as for a range loop
		if _, have := penv.vars[name]; !have {
			if itv := fr.mapIterOfLoop(h); itv != nil {
				if iv, ok := fr.vals[itv]; ok && iv.K == vTerm {
					u.ghostSort["miter_pos"] = "(Array Ref Int)"
					penv.vars[name] = term(fmt.Sprintf("(- (select %s %s) 1)", u.ghostOf(exit, "miter_pos"), iv.T), types.Typ[types.Int])
				}
			}
		}
		// a range loop that has become a counting loop: the range index is counter - 1
		if _, have := penv.vars[name]; !have {
			if cs := fr.countingPhis(h); len(cs) == 1 {
				if v, ok := fr.vals[cs[0]]; ok && v.K == vTerm {
					penv.vars[name] = term(fmt.Sprintf("(- %s 1)", v.T), types.Typ[types.Int])
				}
			}
		}
	}
	if ct != nil && !opts.SweepOnly {
		for i, r := range results {
			if i < len(ct.Results) {
				penv.vars[ct.Results[i]] = r
			}
		}
		// a clause that cannot be evaluated against this code is a failed obligation, not a skipped one
		evalClause := func(en *Expr, env *Env) (g string, why string) {
			defer func() {
				if r := recover(); r != nil {
					if ee, ok := r.(evalError); ok {
						g, why = "false", " [clause cannot be evaluated against this code: "+ee.msg+"]"
						return
					}
					panic(r)
				}
			}()
			return fr.evalBool(en, env, exit, fr.entry), ""
		}
		for i, en := range ct.Ensures {
			g, why := evalClause(en, penv)
			u.oblige(nil, exit.clone(), "post", fmt.Sprintf("%d", i+1), g, token.NoPos, "ensures "+en.src+why)
		}
		for i, en := range ct.Checks {
			g, why := evalClause(en, penv)
			u.oblige(nil, exit.clone(), "post", fmt.Sprintf("c%d", i+1), g, token.NoPos, "checks "+en.src+why)
		}
	}
	for _, ic := range ifcts {
		ienv := fr.ifaceEnv(ic, fn, fr.entry)
		for i, r := range results {
			if i < len(ic.Results) {
				ienv.vars[ic.Results[i]] = r
			}
		}
		for i, en := range ic.Ensures {
			g := fr.evalBool(en, ienv, exit, fr.entry)
			u.oblige(nil, exit.clone(), "ipost", fmt.Sprintf("%s.%d", shortKey(ic.Key), i+1), g, token.NoPos, "interface contract "+ic.Key+": ensures "+en.src)
		}
	}
	return u
}

func (fr *Frame) runTop(st *State) (*State, []*Val) {
	fr.entryPc = st.pc
	return fr.run(st)
}

// environment for an interface contract applied to a concrete method: first contract parameter is the
// receiver as an interface value
func (fr *Frame) ifaceEnv(ic *Contract, fn *ssa.Function, st *State) *Env {
	env := fr.baseEnv()
	for i, p := range fn.Params {
		if i >= len(ic.Params) {
			break
		}
		v := fr.vals[p]
		if i == 0 {
			v = fr.makeIface(v, p.Type(), anyType, st)
		}
		env.vars[ic.Params[i]] = v
	}
	return env
}

// assigns <locs>: writes are allowed to the listed locations
func (fr *Frame) setupAssignable(ct *Contract, st *State) {
	u := fr.u
	env := fr.baseEnv()
	var refs []string
	for _, a := range ct.Assigns {
		// a is x.f (x pointer) or *p : the base reference is what may be written
		var base *Expr
		switch a.op {
		case "field":
			base = a.args[0]
		case "un":
			base = a.args[0]
		case "index":
			base = a.args[0]
		default:
			base = a
		}
		v := fr.eval(base, env, st, st)
		refs = append(refs, fr.refOf(v))
	}
	u.assignable = func(ref, what string) string {
		var alts []string
		for _, r := range refs {
			alts = append(alts, eq(ref, r))
		}
		return or(alts...)
	}
}

// applyContract: a call is replaced by the callee's contract
func (fr *Frame) applyContract(ct *Contract, callee *ssa.Function, recv *Val, args []*Val, st *State, pos token.Pos, resTy types.Type, key string) *Val {
	u := fr.u
	u.usedContracts[key] = true
	env := &Env{vars: map[string]*Val{}, pkg: u.eng.pkgByName(ct.Pkg)}
	all := args
	if recv != nil {
		all = append([]*Val{recv}, args...)
	}
	for i, a := range all {
		if a.K == vAddr {
			a = fr.materialize(a, st)
		}
		if i < len(ct.Params) {
			env.vars[ct.Params[i]] = a
		}
	}
	if callee != nil {
		for i, p := range callee.Params {
			if i < len(all) {
				if _, ok := env.vars[p.Name()]; !ok {
					env.vars[p.Name()] = all[i]
				}
			}
		}
	}
	for i, r := range ct.Requires {
		g := fr.evalBool(r, env, st, st)
		u.oblige(fr, st, "pre", fmt.Sprintf("%s.%d", shortKey(key), i+1), g, pos, "precondition of "+key+": "+r.src)
	}
	pre := st.clone()
	// heap effect
	var ms *modset
	if callee != nil {
		ms = u.eng.modsetOf(u, callee)
	} else {
		ms = &modset{keys: map[string]bool{}, ghosts: map[string]bool{}}
		// interface: union over implementations
		if recv != nil {
			if n, ok := recv.Ty.(*types.Named); ok {
				_ = n
			}
		}
		ms = u.eng.ifaceModset(u, ct)
	}
	if ct.HasAssigns {
		// precise frame: only the listed locations change (allocation needs no heap versioning)
		for _, a := range ct.Assigns {
			switch a.op {
			case "field":
				bv := fr.eval(a.args[0], env, st, st)
				pt, ok := bv.Ty.Underlying().(*types.Pointer)
				if !ok {
					evalFail("assigns: %q: base is not a pointer", a.src)
				}
				obj, path, _ := types.LookupFieldOrMethod(pt.Elem(), true, u.eng.anyPkg(pt.Elem()), a.name)
				fv, ok := obj.(*types.Var)
				if !ok || len(path) != 1 {
					evalFail("assigns: %q: unsupported field path", a.src)
				}
				ad := u.addrOfPtr(bv)
				nad := *ad
				nad.Sels = []sel{{field: path[0], cont: pt.Elem()}}
				nv := u.w.newConst("assigned:"+a.name, u.w.sortOf(fv.Type()))
				for _, f := range u.wfFacts(st, nv, fv.Type(), 0) {
					u.fact(f)
				}
				if u.checkFrame && !(u.frameMode && u.eng.frameSet[key] && !ct.FrameCaller) {
					fr.frameCheckRef(st, ad.Ref, "assigns."+shortKey(key), pos)
				}
				u.storeAddr(st, &nad, nv)
			case "un":
				bv := fr.eval(a.args[0], env, st, st)
				pt, ok := bv.Ty.Underlying().(*types.Pointer)
				if !ok {
					evalFail("assigns: %q: not a pointer", a.src)
				}
				ad := u.addrOfPtr(bv)
				nv := u.w.newConst("assigned", u.w.sortOf(pt.Elem()))
				for _, f := range u.wfFacts(st, nv, pt.Elem(), 0) {
					u.fact(f)
				}
				if u.checkFrame && !(u.frameMode && u.eng.frameSet[key] && !ct.FrameCaller) {
					fr.frameCheckRef(st, ad.Ref, "assigns."+shortKey(key), pos)
				}
				u.storeAddr(st, ad, nv)
			default:
				bv := fr.eval(a, env, st, st)
				mt, ok := bv.Ty.Underlying().(*types.Map)
				if !ok {
					evalFail("assigns: unsupported location %q", a.src)
				}
				if u.checkFrame && !(u.frameMode && u.eng.frameSet[key] && !ct.FrameCaller) {
					fr.frameCheckRef(st, bv.T, "assigns."+shortKey(key), pos)
				}
				kd, kv, kl := u.regM(mt)
				ks, vs := u.w.sortOf(mt.Key()), u.w.sortOf(mt.Elem())
				nd := u.w.newConst("assignedDom", fmt.Sprintf("(Array %s Bool)", ks))
				nv := u.w.newConst("assignedVal", fmt.Sprintf("(Array %s %s)", ks, vs))
				nl := u.w.newConst("assignedLen", "Int")
				u.fact(fmt.Sprintf("(>= %s 0)", nl))
				st.heap[kd] = u.nameHeap(kd, fmt.Sprintf("(store %s %s %s)", u.heapOf(st, kd), bv.T, nd))
				st.heap[kv] = u.nameHeap(kv, fmt.Sprintf("(store %s %s %s)", u.heapOf(st, kv), bv.T, nv))
				st.heap[kl] = u.nameHeap(kl, fmt.Sprintf("(store %s %s %s)", u.heapOf(st, kl), bv.T, nl))
			}
		}
	} else if u.eng.frameSet[key] || (callee == nil && u.eng.ifaceImplsInFrameSet(ct)) {
		// the callee's own unit checks its frame in this run: allocation only here
	} else {
		var ks []string
		for k := range ms.keys {
			ks = append(ks, k)
		}
		sort.Strings(ks)
		for _, k := range ks {
			u.ensureKey(k)
			if _, ok := u.heapSorts[k]; !ok {
				continue
			}
			open := ms.keys[k]
			if open && u.checkFrame {
				u.oblige(fr, st, "frame", "call", "false", pos, "callee "+key+" may write pre-existing memory ("+k+") and its contract has no assigns clause")
			}
			u.havocHeap(st, k, open, nil)
		}
	}
	for g := range ms.ghosts {
		if srt := u.ghostSort[g]; srt != "" {
			st.ghost[g] = u.w.newConst("g:"+g, srt)
		}
	}
	if ct.Counted {
		gk := "calls:" + ct.Key
		u.ghostSort[gk] = "Int"
		n := u.w.newConst("calls", "Int")
		u.fact(eq(n, fmt.Sprintf("(+ %s 1)", u.ghostOf(st, gk))))
		st.ghost[gk] = n
	}
	fr.bumpNow(st)
	res := fr.havocResults(st, resTy, shortKey(key))
	var rl []*Val
	switch res.K {
	case vTuple:
		rl = res.Elems
	case vTerm:
		rl = []*Val{res}
	}
	for i, r := range rl {
		if i < len(ct.Results) {
			env.vars[ct.Results[i]] = r
		}
	}
	saveBase := fr.freshBase
	fr.freshBase = pre.now
	defer func() { fr.freshBase = saveBase }()
	scopeCond := "true"
	for _, sc := range ct.Scope {
		scopeCond = and(scopeCond, fr.evalBool(sc, env, pre, pre))
	}
	for _, en := range ct.Ensures {
		u.fact(implies(and(st.pc, scopeCond), fr.evalBool(en, env, st, pre)))
	}
	for _, en := range ct.Names {
		u.fact(implies(st.pc, fr.evalBool(en, env, st, pre)))
		u.assume["verdict-naming clauses (names ...) of callee contracts are assumed: they presuppose that schema operations are deterministic functions of (schema, argument), which is what C12 decides"] = true
	}
	return res
}

// all implementations (in the analysed packages) of the interface method of contract ct have their frame
// checked by their own unit in this run
func (e *Engine) ifaceImplsInFrameSet(ct *Contract) bool {
	if len(e.frameSet) == 0 {
		return false
	}
	parts := strings.Split(ct.Key, ".")
	if len(parts) != 3 {
		return false
	}
	p := e.tpkgs[parts[0]]
	if p == nil {
		return false
	}
	obj := p.Scope().Lookup(parts[1])
	if obj == nil {
		return false
	}
	iface, ok := obj.Type().Underlying().(*types.Interface)
	if !ok {
		return false
	}
	for i := 0; i < iface.NumMethods(); i++ {
		if iface.Method(i).Name() == parts[2] {
			for _, impl := range e.implementations(obj.Type(), iface.Method(i)) {
				if !e.inFrameSet(impl.fn) {
					return false
				}
			}
			return true
		}
	}
	return false
}

func (e *Engine) ifaceModset(u *Unit, ct *Contract) *modset {
	ms := &modset{keys: map[string]bool{}, ghosts: map[string]bool{}}
	parts := strings.Split(ct.Key, ".")
	if len(parts) != 3 {
		return ms
	}
	p := e.tpkgs[parts[0]]
	if p == nil {
		return ms
	}
	obj := p.Scope().Lookup(parts[1])
	if obj == nil {
		return ms
	}
	it := obj.Type()
	iface, ok := it.Underlying().(*types.Interface)
	if !ok {
		return ms
	}
	var m *types.Func
	for i := 0; i < iface.NumMethods(); i++ {
		if iface.Method(i).Name() == parts[2] {
			m = iface.Method(i)
		}
	}
	if m == nil {
		return ms
	}
	for _, impl := range e.implementations(it, m) {
		sub := e.modsetOf(u, impl.fn)
		for k, op := range sub.keys {
			addKey(ms, k, op)
		}
		for g := range sub.ghosts {
			ms.ghosts[g] = true
		}
	}
	return ms
}

var _ = ast.NewIdent

// ---------------------------------------------------------------------------------------------
// frame mode: constraint errors travel upwards and get path segments prepended. The automatic rule:
// the first *ConstraintError of an error result was allocated during the call, or is the one of an error
// parameter. Checked for every function of the frame set, assumed at calls to them.
// ---------------------------------------------------------------------------------------------

func isErrorType(t types.Type) bool {
	n, ok := t.(*types.Named)
	return ok && n.Obj().Pkg() == nil && n.Obj().Name() == "error"
}

func (fr *Frame) ceOfTerm(x string) (ok string, val string) {
	u := fr.u
	okf := u.fn("as_ce_ok", []string{"Iface"}, "Bool")
	valf := u.fn("as_ce_val", []string{"Iface"}, "Ref")
	_, ub := u.w.boxFn("Ref")
	ck := "asce:" + x
	if !u.frameDone[ck] {
		u.frameDone[ck] = true
		u.fact(implies(fmt.Sprintf("(= (ityp %s) T_nil)", x), not(app(okf, x))))
		u.fact(implies(fmt.Sprintf("(= (ityp %s) %s)", x, u.ceTag()), and(app(okf, x), eq(app(valf, x), fmt.Sprintf("(%s (ival %s))", ub, x)))))
		u.fact(implies(app(okf, x), fmt.Sprintf("(distinct %s nil)", app(valf, x))))
	}
	return app(okf, x), app(valf, x)
}

func (fr *Frame) freshErrFormula(res string, base string, errArgs []string) string {
	ok, val := fr.ceOfTerm(res)
	alts := []string{not(ok), fmt.Sprintf("(>= (birth %s) %s)", val, base)}
	for _, a := range errArgs {
		if strings.HasPrefix(a, "ref:") {
			alts = append(alts, eq(val, strings.TrimPrefix(a, "ref:")))
			continue
		}
		aok, aval := fr.ceOfTerm(a)
		alts = append(alts, and(aok, eq(val, aval)))
	}
	return or(alts...)
}

func (fr *Frame) isCEPtr(t types.Type) bool {
	cet := fr.u.eng.ceType()
	pt, ok := t.(*types.Pointer)
	return ok && cet != nil && types.Identical(pt.Elem(), cet)
}

func (fr *Frame) autoFreshErrPost(exit *State, results []*Val) {
	u := fr.u
	if exit.dead || fr.u.eng.contracts == nil {
		return
	}
	if u.eng.ceType() == nil {
		return
	}
	var errArgs []string
	for _, p := range fr.fn.Params {
		if isErrorType(p.Type()) {
			errArgs = append(errArgs, fr.vals[p].T)
		} else if fr.isCEPtr(p.Type()) {
			errArgs = append(errArgs, "ref:"+fr.vals[p].T)
		}
	}
	sig := fr.fn.Signature.Results()
	for i, r := range results {
		if i < sig.Len() && isErrorType(sig.At(i).Type()) && r.K == vTerm {
			u.oblige(nil, exit.clone(), "frame", "fresherr", fr.freshErrFormula(r.T, u.entryNow, errArgs), token.NoPos, "a returned constraint error was allocated by this call (or is the one passed in)")
		}
	}
}

// assumeFreshErr: after a call in frame mode
func (fr *Frame) assumeFreshErr(st *State, base string, res *Val, resTy types.Type, args []*Val, trusted bool) {
	u := fr.u
	if !u.frameMode || res == nil || u.eng.ceType() == nil || !trusted {
		return
	}
	var errArgs []string
	for _, a := range args {
		if a != nil && a.K == vTerm && a.Ty != nil && isErrorType(a.Ty) {
			errArgs = append(errArgs, a.T)
		} else if a != nil && a.K == vTerm && a.Ty != nil && fr.isCEPtr(a.Ty) {
			errArgs = append(errArgs, "ref:"+a.T)
		}
	}
	var rl []*Val
	switch res.K {
	case vTuple:
		rl = res.Elems
	case vTerm:
		rl = []*Val{res}
	}
	for _, r := range rl {
		if r.K == vTerm && r.Ty != nil && isErrorType(r.Ty) {
			u.fact(implies(st.pc, fr.freshErrFormula(r.T, base, errArgs)))
		}
	}
}
