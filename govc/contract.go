package main

import (
	"fmt"
	"os"
	"path/filepath"
	"strconv"
	"strings"
	"unicode"
)

// ---------------------------------------------------------------------------------------------
// Contract language: parsing
// ---------------------------------------------------------------------------------------------

type Expr struct {
	op   string // ident int str bool nil un bin field index call assert quant old cond
	name string
	args []*Expr
	vars []qvar
	typ  string
	src  string
}

type qvar struct{ name, typ string }

type specFn struct {
	name     string
	params   []qvar
	ret      string
	body     *Expr
	abstract bool
	opaque   bool // used through a named application; the definition is a separate (universally closed) fact
	pkg      string
}

type Contract struct {
	Key           string // e.g. schema.IntSchema.Serialize ; for interfaces schema.Type.Unserialize
	Pkg           string
	IsIface       bool
	Params        []string // names bound positionally to receiver+params
	Results       []string
	Requires      []*Expr
	Scope         []*Expr // domain restriction of the functional clauses: assumed when they are checked; callers get scope ==> ensures
	Ensures       []*Expr
	Checks        []*Expr // postconditions that mention internal variables (witnesses): verified, not exported to callers
	OnPanic       []*Expr // exceptional postconditions: hold in the state in which the function panics explicitly
	Names         []*Expr // definitional clauses: assumed at call sites, never checked (they name the verdict of a deterministic operation)
	Assigns       []*Expr
	HasAssigns    bool
	LoopInv       map[int][]*Expr
	Decreases     []*Expr
	Arith         bool // arith checked
	Pure          bool
	File          string
	Line          int
	Deterministic bool // output must not depend on map iteration order
	FrameCaller   bool // the declared assigns are memory of the caller: judged at call sites (frame mode)
	Counted       bool // every call increments ghost("calls:<Key>")
	Trusted       bool // contract is assumed, body not verified (listed in evidence)
	NoFrame       bool
	Ghost         map[string]string
}

// onlyLoopInvs: the contract says nothing about calls (no pre/postconditions, frame or flags): it only carries loop
// invariants for when the function is inlined (deferred closures)
func (c *Contract) onlyLoopInvs() bool {
	return len(c.Requires) == 0 && len(c.Scope) == 0 && len(c.Ensures) == 0 && len(c.Checks) == 0 && len(c.Names) == 0 &&
		!c.HasAssigns && !c.Arith && !c.Counted && !c.Trusted && !c.Deterministic && len(c.LoopInv) > 0
}

type Lemma struct {
	Name string
	Pkg  string
	Vars []qvar
	Body *Expr
}

type TypeInv struct {
	TypeName string
	Var      string
	Body     *Expr
	Pkg      string
}

// Monitor: a mutex field of a struct type protects other fields of the same value
type Monitor struct {
	TypeName   string   // pkg.Type
	Lock       string   // field name of the mutex
	Protects   []string // field names
	InsertOnly []string // protected map fields whose entries are never overwritten or deleted
	NoDelete   []string // protected map fields whose entries are never deleted
	Types      []string // struct types (pkg.T) whose cells are reachable only through the protected fields: unknown after re-acquisition
	Conds      []string // T.field of condition variables whose L is this mutex
	InvVar     string
	Invs       []*Expr // monitor invariants: hold whenever the lock is free (assumed at Lock, proved at Unlock / Wait)
	Pkg        string
}

// ChanInv: every value sent on the channel held in field Field of type TypeName satisfies Body (checked at sends,
// assumed at receives)
type ChanInv struct {
	TypeName string
	Field    string
	Var      string
	Body     *Expr
	Pkg      string
}

type ContractSet struct {
	chaninvs []*ChanInv
	monitors []*Monitor
	invs     map[string][]*TypeInv // type name (pkg.Name) -> invariants
	nonnil   map[string]bool       // "pkg::type text" -> elements of this type in pre-existing containers are non-nil
	funcs    map[string]*Contract
	ifaces   map[string]*Contract
	specs    map[string]*specFn
	lemmas   []*Lemma
	axioms   []*Lemma // facts that define abstract spec functions (assumed; listed in the evidence)
	files    []string
}

var clauseKeywords = map[string]bool{"func": true, "interface": true, "spec": true, "abstract": true, "requires": true, "ensures": true,
	"assigns": true, "loop": true, "decreases": true, "arith": true, "pure": true, "lemma": true, "trusted": true, "noframe": true, "invariant": true, "nonnil": true, "names": true, "ospec": true, "checks": true, "counted": true, "axiom": true, "monitor": true, "scope": true, "deterministic": true, "framecaller": true, "chaninvariant": true, "monitorinvariant": true, "onpanic": true}

func loadContracts(files []string) (*ContractSet, error) {
	cs := &ContractSet{funcs: map[string]*Contract{}, ifaces: map[string]*Contract{}, specs: map[string]*specFn{}, invs: map[string][]*TypeInv{}, nonnil: map[string]bool{}}
	for _, f := range files {
		if err := cs.loadFile(f); err != nil {
			return nil, err
		}
	}
	return cs, nil
}

func (cs *ContractSet) loadFile(path string) error {
	data, err := os.ReadFile(path)
	if err != nil {
		return err
	}
	cs.files = append(cs.files, path)
	pkg := ""
	type clause struct {
		text string
		line int
	}
	var clauses []clause
	for i, ln := range strings.Split(string(data), "\n") {
		t := strings.TrimSpace(ln)
		if strings.HasPrefix(t, "package ") && pkg == "" {
			pkg = strings.TrimSpace(strings.TrimPrefix(t, "package "))
		}
		if !strings.HasPrefix(t, "//@") {
			continue
		}
		t = strings.TrimSpace(strings.TrimPrefix(t, "//@"))
		if t == "" {
			continue
		}
		if j := strings.Index(t, " //"); j >= 0 {
			t = strings.TrimSpace(t[:j])
		}
		first := t
		if j := strings.IndexAny(t, " \t("); j >= 0 {
			first = t[:j]
		}
		if clauseKeywords[first] || len(clauses) == 0 {
			clauses = append(clauses, clause{t, i + 1})
		} else {
			clauses[len(clauses)-1].text += " " + t
		}
	}
	var cur *Contract
	for _, c := range clauses {
		fail := func(e error) error {
			return fmt.Errorf("%s:%d: %v (in %q)", filepath.Base(path), c.line, e, c.text)
		}
		kw, rest := splitKw(c.text)
		switch kw {
		case "func", "interface":
			ct, err := parseHeader(rest)
			if err != nil {
				return fail(err)
			}
			ct.Pkg = pkg
			ct.Key = pkg + "." + ct.Key
			ct.File = path
			ct.Line = c.line
			ct.LoopInv = map[int][]*Expr{}
			ct.IsIface = kw == "interface"
			// a contract may be written in several places (one per property); the clauses accumulate
			tbl := cs.funcs
			if ct.IsIface {
				tbl = cs.ifaces
			}
			if old, ok := tbl[ct.Key]; ok {
				if strings.Join(old.Params, ",") != strings.Join(ct.Params, ",") || strings.Join(old.Results, ",") != strings.Join(ct.Results, ",") {
					return fail(fmt.Errorf("contract %s repeated with different parameter/result names", ct.Key))
				}
				cur = old
			} else {
				tbl[ct.Key] = ct
				cur = ct
			}
		case "spec", "abstract", "ospec":
			sf, err := parseSpec(rest, kw == "abstract")
			if err != nil {
				return fail(err)
			}
			sf.opaque = kw == "ospec"
			sf.pkg = pkg
			cs.specs[sf.name] = sf
			cur = nil
		case "invariant":
			// invariant T(x): expr
			lp, rp, col := strings.Index(rest, "("), strings.Index(rest, ")"), strings.Index(rest, ":")
			if lp < 0 || rp < lp || col < rp {
				return fail(fmt.Errorf("expected: invariant T(x): expr"))
			}
			ex, err := parseExpr(rest[col+1:])
			if err != nil {
				return fail(err)
			}
			ti := &TypeInv{TypeName: strings.TrimSpace(rest[:lp]), Var: strings.TrimSpace(rest[lp+1 : rp]), Body: ex, Pkg: pkg}
			cs.invs[pkg+"."+ti.TypeName] = append(cs.invs[pkg+"."+ti.TypeName], ti)
			cur = nil
		case "monitorinvariant":
			// monitorinvariant T.lock(x): expr
			lp, rp := strings.Index(rest, "("), strings.Index(rest, ")")
			col := -1
			if rp > 0 {
				col = rp + strings.Index(rest[rp:], ":")
			}
			if lp < 0 || rp < lp || col < rp || !strings.Contains(rest[:lp], ".") {
				return fail(fmt.Errorf("expected: monitorinvariant T.lock(x): expr"))
			}
			ex, err := parseExpr(rest[col+1:])
			if err != nil {
				return fail(err)
			}
			tf := strings.SplitN(strings.TrimSpace(rest[:lp]), ".", 2)
			found := false
			for _, m := range cs.monitors {
				if m.TypeName == pkg+"."+tf[0] && m.Lock == tf[1] {
					m.InvVar = strings.TrimSpace(rest[lp+1 : rp])
					m.Invs = append(m.Invs, ex)
					found = true
				}
			}
			if !found {
				return fail(fmt.Errorf("monitorinvariant: no monitor declared for %s", rest[:lp]))
			}
			cur = nil
		case "chaninvariant":
			// chaninvariant T.field(v): expr
			lp, rp := strings.Index(rest, "("), strings.Index(rest, ")")
			col := -1
			if rp > 0 {
				col = rp + strings.Index(rest[rp:], ":")
			}
			if lp < 0 || rp < lp || col < rp || !strings.Contains(rest[:lp], ".") {
				return fail(fmt.Errorf("expected: chaninvariant T.field(v): expr"))
			}
			ex, err := parseExpr(rest[col+1:])
			if err != nil {
				return fail(err)
			}
			tf := strings.SplitN(strings.TrimSpace(rest[:lp]), ".", 2)
			cs.chaninvs = append(cs.chaninvs, &ChanInv{TypeName: pkg + "." + tf[0], Field: tf[1], Var: strings.TrimSpace(rest[lp+1 : rp]), Body: ex, Pkg: pkg})
			cur = nil
		case "monitor":
			// monitor T.lockField protects f1, f2 insert-only f1
			f := strings.Fields(strings.ReplaceAll(rest, ",", " "))
			if len(f) < 3 || f[1] != "protects" || !strings.Contains(f[0], ".") {
				return fail(fmt.Errorf("expected: monitor T.lock protects f1, f2 [insert-only f]"))
			}
			tl := strings.SplitN(f[0], ".", 2)
			mon := &Monitor{TypeName: pkg + "." + tl[0], Lock: tl[1], Pkg: pkg}
			mode := "p"
			for _, w := range f[2:] {
				switch w {
				case "insert-only":
					mode = "i"
					continue
				case "no-delete":
					mode = "d"
					continue
				case "types":
					mode = "t"
					continue
				case "conds":
					mode = "c"
					continue
				}
				switch mode {
				case "p":
					mon.Protects = append(mon.Protects, w)
				case "i":
					mon.InsertOnly = append(mon.InsertOnly, w)
				case "d":
					mon.NoDelete = append(mon.NoDelete, w)
				case "t":
					mon.Types = append(mon.Types, pkg+"."+w)
				case "c":
					mon.Conds = append(mon.Conds, pkg+"."+w)
				}
			}
			cs.monitors = append(cs.monitors, mon)
			cur = nil
		case "nonnil":
			cs.nonnil[pkg+"::"+strings.TrimSpace(rest)] = true
			cur = nil
		case "lemma", "axiom":
			lm, err := parseLemma(rest)
			if err != nil {
				return fail(err)
			}
			lm.Pkg = pkg
			if kw == "axiom" {
				cs.axioms = append(cs.axioms, lm)
			} else {
				cs.lemmas = append(cs.lemmas, lm)
			}
			cur = nil
		case "requires", "ensures", "decreases", "names", "checks", "scope", "onpanic":
			if cur == nil {
				return fail(fmt.Errorf("clause outside a contract"))
			}
			e, err := parseExpr(rest)
			if err != nil {
				return fail(err)
			}
			switch kw {
			case "requires":
				cur.Requires = append(cur.Requires, e)
			case "ensures":
				cur.Ensures = append(cur.Ensures, e)
			case "names":
				cur.Names = append(cur.Names, e)
			case "checks":
				cur.Checks = append(cur.Checks, e)
			case "onpanic":
				cur.OnPanic = append(cur.OnPanic, e)
			case "scope":
				cur.Scope = append(cur.Scope, e)
			default:
				cur.Decreases = append(cur.Decreases, e)
			}
		case "assigns":
			if cur == nil {
				return fail(fmt.Errorf("clause outside a contract"))
			}
			cur.HasAssigns = true
			if strings.TrimSpace(rest) != "nothing" {
				for _, part := range splitTop(rest, ',') {
					e, err := parseExpr(part)
					if err != nil {
						return fail(err)
					}
					cur.Assigns = append(cur.Assigns, e)
				}
			}
		case "loop":
			if cur == nil {
				return fail(fmt.Errorf("clause outside a contract"))
			}
			f := strings.Fields(rest)
			if len(f) < 3 || f[1] != "invariant" {
				return fail(fmt.Errorf("expected: loop <n> invariant <expr>"))
			}
			n, err := strconv.Atoi(f[0])
			if err != nil {
				return fail(err)
			}
			e, err := parseExpr(strings.TrimSpace(rest[strings.Index(rest, "invariant")+len("invariant"):]))
			if err != nil {
				return fail(err)
			}
			cur.LoopInv[n] = append(cur.LoopInv[n], e)
		case "arith":
			if cur != nil {
				cur.Arith = true
			}
		case "pure":
			if cur != nil {
				cur.Pure = true
			}
		case "trusted":
			if cur != nil {
				cur.Trusted = true
			}
		case "counted":
			if cur != nil {
				cur.Counted = true
			}
		case "deterministic":
			if cur != nil {
				cur.Deterministic = true
			}
		case "framecaller":
			if cur != nil {
				cur.FrameCaller = true
			}
		case "noframe":
			if cur != nil {
				cur.NoFrame = true
			}
		default:
			return fail(fmt.Errorf("unknown clause %q", kw))
		}
	}
	return nil
}

func splitKw(s string) (string, string) {
	s = strings.TrimSpace(s)
	i := strings.IndexAny(s, " \t")
	if i < 0 {
		return s, ""
	}
	return s[:i], strings.TrimSpace(s[i+1:])
}

func splitTop(s string, sep rune) []string {
	var out []string
	d := 0
	start := 0
	for i, c := range s {
		switch c {
		case '(', '[':
			d++
		case ')', ']':
			d--
		}
		if c == sep && d == 0 {
			out = append(out, strings.TrimSpace(s[start:i]))
			start = i + 1
		}
	}
	out = append(out, strings.TrimSpace(s[start:]))
	return out
}

// header:  Name.Method(p1, p2) -> r1, r2      (parameters include the receiver first)
func parseHeader(s string) (*Contract, error) {
	ct := &Contract{}
	lp := strings.Index(s, "(")
	if lp < 0 {
		return nil, fmt.Errorf("expected (")
	}
	ct.Key = strings.TrimSpace(s[:lp])
	rp := strings.Index(s, ")")
	if rp < lp {
		return nil, fmt.Errorf("expected )")
	}
	for _, p := range strings.Split(s[lp+1:rp], ",") {
		p = strings.TrimSpace(p)
		if p != "" {
			ct.Params = append(ct.Params, p)
		}
	}
	rest := strings.TrimSpace(s[rp+1:])
	if strings.HasPrefix(rest, "->") {
		for _, r := range strings.Split(rest[2:], ",") {
			r = strings.TrimSpace(r)
			if r != "" {
				ct.Results = append(ct.Results, r)
			}
		}
	}
	return ct, nil
}

// spec name(p T, q U) R = expr     |   abstract name(p T, q U) R
func parseSpec(s string, abstract bool) (*specFn, error) {
	lp := strings.Index(s, "(")
	if lp < 0 {
		return nil, fmt.Errorf("expected (")
	}
	sf := &specFn{name: strings.TrimSpace(s[:lp]), abstract: abstract}
	d := 0
	rp := -1
	for i := lp; i < len(s); i++ {
		if s[i] == '(' {
			d++
		}
		if s[i] == ')' {
			d--
			if d == 0 {
				rp = i
				break
			}
		}
	}
	if rp < 0 {
		return nil, fmt.Errorf("unbalanced (")
	}
	for _, p := range splitTop(s[lp+1:rp], ',') {
		if p == "" {
			continue
		}
		i := strings.IndexAny(p, " \t")
		if i < 0 {
			return nil, fmt.Errorf("parameter needs a type: %q", p)
		}
		sf.params = append(sf.params, qvar{p[:i], strings.TrimSpace(p[i+1:])})
	}
	rest := strings.TrimSpace(s[rp+1:])
	if abstract {
		sf.ret = rest
		return sf, nil
	}
	eqi := strings.Index(rest, "=")
	if eqi < 0 {
		return nil, fmt.Errorf("expected = body")
	}
	sf.ret = strings.TrimSpace(rest[:eqi])
	e, err := parseExpr(rest[eqi+1:])
	if err != nil {
		return nil, err
	}
	sf.body = e
	return sf, nil
}

// lemma name: forall x T, y U :: body
func parseLemma(s string) (*Lemma, error) {
	i := strings.Index(s, ":")
	if i < 0 {
		return nil, fmt.Errorf("expected name:")
	}
	lm := &Lemma{Name: strings.TrimSpace(s[:i])}
	e, err := parseExpr(s[i+1:])
	if err != nil {
		return nil, err
	}
	lm.Body = e
	return lm, nil
}

// ---- tokenizer ---------------------------------------------------------------------------------

type tok struct {
	k string // id num str op eof
	s string
}

func lex(s string) ([]tok, error) {
	var out []tok
	i := 0
	for i < len(s) {
		c := rune(s[i])
		switch {
		case unicode.IsSpace(c):
			i++
		case unicode.IsLetter(c) || c == '_' || c == '$':
			j := i
			for j < len(s) && (unicode.IsLetter(rune(s[j])) || unicode.IsDigit(rune(s[j])) || s[j] == '_' || s[j] == '$') {
				j++
			}
			out = append(out, tok{"id", s[i:j]})
			i = j
		case unicode.IsDigit(c):
			j := i
			for j < len(s) && (unicode.IsDigit(rune(s[j])) || s[j] == '.' || s[j] == 'e' || s[j] == 'x' || (s[j] >= 'a' && s[j] <= 'f')) {
				// do not swallow ".." or a method call on a number (not used)
				j++
			}
			out = append(out, tok{"num", s[i:j]})
			i = j
		case c == '"':
			j := i + 1
			for j < len(s) && s[j] != '"' {
				if s[j] == '\\' {
					j++
				}
				j++
			}
			if j >= len(s) {
				return nil, fmt.Errorf("unterminated string")
			}
			v, err := strconv.Unquote(s[i : j+1])
			if err != nil {
				return nil, err
			}
			out = append(out, tok{"str", v})
			i = j + 1
		default:
			ops := []string{"<==>", "==>", "::", "==", "!=", "<=", ">=", "&&", "||", "++", "->", "(", ")", "[", "]", "{", "}", ",", ".", "<", ">", "+", "-", "*", "/", "%", "!", "?", ":", "&"}
			matched := false
			for _, o := range ops {
				if strings.HasPrefix(s[i:], o) {
					out = append(out, tok{"op", o})
					i += len(o)
					matched = true
					break
				}
			}
			if !matched {
				return nil, fmt.Errorf("unexpected character %q", c)
			}
		}
	}
	out = append(out, tok{"eof", ""})
	return out, nil
}

type parser struct {
	toks []tok
	p    int
	src  string
}

func parseExpr(s string) (*Expr, error) {
	s = strings.TrimSpace(s)
	toks, err := lex(s)
	if err != nil {
		return nil, err
	}
	ps := &parser{toks: toks, src: s}
	e, err := ps.expr(0)
	if err != nil {
		return nil, err
	}
	if ps.peek().k != "eof" {
		return nil, fmt.Errorf("unexpected %q", ps.peek().s)
	}
	e.src = s
	return e, nil
}

func (p *parser) peek() tok { return p.toks[p.p] }
func (p *parser) next() tok { t := p.toks[p.p]; p.p++; return t }
func (p *parser) accept(s string) bool {
	if p.peek().k == "op" && p.peek().s == s {
		p.p++
		return true
	}
	return false
}
func (p *parser) expect(s string) error {
	if !p.accept(s) {
		return fmt.Errorf("expected %q, found %q", s, p.peek().s)
	}
	return nil
}

var binPrec = map[string]int{"<==>": 1, "==>": 2, "||": 3, "&&": 4, "==": 5, "!=": 5, "<": 5, "<=": 5, ">": 5, ">=": 5, "in": 5,
	"+": 6, "-": 6, "++": 6, "*": 7, "/": 7, "%": 7}

func (p *parser) expr(minPrec int) (*Expr, error) {
	// quantifiers bind loosest
	if p.peek().k == "id" && (p.peek().s == "forall" || p.peek().s == "exists") {
		q := p.next().s
		var vars []qvar
		for {
			if p.peek().k != "id" {
				return nil, fmt.Errorf("quantifier variable expected")
			}
			name := p.next().s
			ty, err := p.typeText()
			if err != nil {
				return nil, err
			}
			vars = append(vars, qvar{name, ty})
			if !p.accept(",") {
				break
			}
		}
		if err := p.expect("::"); err != nil {
			return nil, err
		}
		body, err := p.expr(0)
		if err != nil {
			return nil, err
		}
		return &Expr{op: "quant", name: q, vars: vars, args: []*Expr{body}}, nil
	}
	lhs, err := p.unary()
	if err != nil {
		return nil, err
	}
	for {
		t := p.peek()
		op := t.s
		if !(t.k == "op" || (t.k == "id" && t.s == "in")) {
			break
		}
		if op == "?" && minPrec <= 0 {
			p.next()
			a, err := p.expr(1)
			if err != nil {
				return nil, err
			}
			if err := p.expect(":"); err != nil {
				return nil, err
			}
			b, err := p.expr(0)
			if err != nil {
				return nil, err
			}
			lhs = &Expr{op: "cond", args: []*Expr{lhs, a, b}}
			continue
		}
		prec, ok := binPrec[op]
		if !ok || prec < minPrec {
			break
		}
		p.next()
		nextMin := prec + 1
		if op == "==>" {
			nextMin = prec // right assoc
		}
		var rhs *Expr
		if p.peek().k == "id" && (p.peek().s == "forall" || p.peek().s == "exists") {
			rhs, err = p.expr(0)
		} else {
			rhs, err = p.expr(nextMin)
		}
		if err != nil {
			return nil, err
		}
		lhs = &Expr{op: "bin", name: op, args: []*Expr{lhs, rhs}}
	}
	return lhs, nil
}

// typeText reads a Go type expression up to "," or "::" at depth 0
func (p *parser) typeText() (string, error) {
	var sb strings.Builder
	d := 0
	for {
		t := p.peek()
		if t.k == "eof" {
			break
		}
		if t.k == "op" && d == 0 && (t.s == "," || t.s == "::" || t.s == ")") {
			break
		}
		if t.k == "op" && (t.s == "(" || t.s == "[") {
			d++
		}
		if t.k == "op" && (t.s == ")" || t.s == "]") {
			d--
		}
		sb.WriteString(t.s)
		p.next()
	}
	if sb.Len() == 0 {
		return "", fmt.Errorf("type expected")
	}
	return sb.String(), nil
}

func (p *parser) unary() (*Expr, error) {
	t := p.peek()
	if t.k == "op" && (t.s == "!" || t.s == "-" || t.s == "*" || t.s == "&") {
		p.next()
		x, err := p.unary()
		if err != nil {
			return nil, err
		}
		return &Expr{op: "un", name: t.s, args: []*Expr{x}}, nil
	}
	return p.postfix()
}

func (p *parser) postfix() (*Expr, error) {
	x, err := p.primary()
	if err != nil {
		return nil, err
	}
	for {
		switch {
		case p.accept("."):
			if p.accept("(") {
				ty, err := p.typeText()
				if err != nil {
					return nil, err
				}
				if err := p.expect(")"); err != nil {
					return nil, err
				}
				x = &Expr{op: "assert", typ: ty, args: []*Expr{x}}
				continue
			}
			if p.peek().k != "id" {
				return nil, fmt.Errorf("field name expected")
			}
			x = &Expr{op: "field", name: p.next().s, args: []*Expr{x}}
		case p.accept("["):
			i, err := p.expr(0)
			if err != nil {
				return nil, err
			}
			if err := p.expect("]"); err != nil {
				return nil, err
			}
			x = &Expr{op: "index", args: []*Expr{x, i}}
		default:
			return x, nil
		}
	}
}

func (p *parser) primary() (*Expr, error) {
	t := p.next()
	switch t.k {
	case "num":
		return &Expr{op: "int", name: t.s}, nil
	case "str":
		return &Expr{op: "str", name: t.s}, nil
	case "id":
		switch t.s {
		case "true", "false":
			return &Expr{op: "bool", name: t.s}, nil
		case "nil":
			return &Expr{op: "nil"}, nil
		}
		if p.peek().k == "op" && p.peek().s == "(" {
			p.next()
			// type(T) and tag-ish builtins take a type
			if t.s == "type" || t.s == "zero" {
				ty, err := p.typeText()
				if err != nil {
					return nil, err
				}
				if err := p.expect(")"); err != nil {
					return nil, err
				}
				return &Expr{op: "call", name: t.s, typ: ty}, nil
			}
			var args []*Expr
			if !p.accept(")") {
				for {
					a, err := p.expr(0)
					if err != nil {
						return nil, err
					}
					args = append(args, a)
					if p.accept(")") {
						break
					}
					if err := p.expect(","); err != nil {
						return nil, err
					}
				}
			}
			return &Expr{op: "call", name: t.s, args: args}, nil
		}
		return &Expr{op: "ident", name: t.s}, nil
	case "op":
		if t.s == "(" {
			e, err := p.expr(0)
			if err != nil {
				return nil, err
			}
			if err := p.expect(")"); err != nil {
				return nil, err
			}
			return e, nil
		}
	}
	return nil, fmt.Errorf("unexpected %q", t.s)
}
