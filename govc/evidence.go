package main

import (
	"context"
	"fmt"
	"os"
	"sort"
	"strings"
)

func contextBackground() context.Context { return context.Background() }

func (e *Engine) lemmaUnit(names []string) *Unit {
	if len(names) == 0 {
		return nil
	}
	u := e.newUnit(nil)
	u.name = "lemmas"
	u.quantOK = true
	want := map[string]bool{}
	for _, n := range names {
		want[n] = true
	}
	st := &State{pc: "true", heap: map[string]string{}, ghost: map[string]string{}, now: "0"}
	u.entryNow = "0"
	fr := &Frame{u: u}
	u.top = fr
	fr.entry = st
	for _, lm := range e.contracts.lemmas {
		if !want[lm.Name] {
			continue
		}
		delete(want, lm.Name)
		func() {
			defer func() {
				if r := recover(); r != nil {
					u.obls = append(u.obls, &Obl{Name: "lemma:" + lm.Name, Class: "lemma", Cond: "true", Goal: "false", Note: fmt.Sprintf("lemma cannot be evaluated: %v", r)})
				}
			}()
			env := &Env{vars: map[string]*Val{}, pkg: e.pkgByName(lm.Pkg)}
			g := fr.evalBool(lm.Body, env, st, st)
			u.obls = append(u.obls, &Obl{Name: "lemma:" + lm.Name, Class: "lemma", Cond: "true", Goal: g, Note: "lemma " + lm.Name + ": " + lm.Body.src})
		}()
	}
	for n := range want {
		u.obls = append(u.obls, &Obl{Name: "lemma:" + n, Class: "lemma", Cond: "true", Goal: "false", Note: "lemma not found in the contract files"})
	}
	return u
}

func buildEvidence(e *Engine, spec *PropSpec, prop, tier string, seed int, reports []*unitReport, nObl, nDis, nViol int,
	solverCount map[string]int, solverSecs map[string]float64, samples []any, known, undecided, missing, unsupportedFns []string, wall float64, verif string) map[string]any {
	var fns []string
	notes := map[string]bool{}
	assume := map[string]bool{}
	std := map[string]bool{}
	inl := map[string]bool{}
	usedCt := map[string]bool{}
	trusted := map[string]bool{}
	for _, r := range reports {
		if r.entry.Mode == "lemma" {
			continue
		}
		fns = append(fns, fmt.Sprintf("%s [%s, %d obligations]", r.u.name, r.entry.Mode, len(r.obls)))
		for n := range r.u.notes {
			notes[n] = true
		}
		for n := range r.u.assume {
			assume[n] = true
		}
		for n := range r.u.usedStd {
			std[n] = true
		}
		for n := range r.u.inlined {
			inl[n] = true
		}
		for n := range r.u.usedContracts {
			usedCt[n] = true
			if ct := e.contracts.funcs[n]; ct != nil && ct.Trusted {
				trusted[n] = true
			}
		}
	}
	keys := func(m map[string]bool) []string {
		var out []string
		for k := range m {
			out = append(out, k)
		}
		sort.Strings(out)
		return out
	}
	var stdDocsUsed []string
	for _, n := range keys(std) {
		stdDocsUsed = append(stdDocsUsed, n+": "+stdDocs[n])
	}
	sc := map[string]any{}
	for k, v := range solverCount {
		sc[k] = map[string]any{"discharged": v, "seconds": round3(solverSecs[k])}
	}
	assumptions := []string{
		"go/packages + go/ssa (x/tools v0.29.0) lowering of the Go source is faithful; the VC generator govc and the SMT solvers (z3 5.1.0, z3 4.8.12, cvc5 1.0.3) are trusted",
		"integers are mathematical Int with Go's two's-complement wrap-around applied to every + - * and narrowing conversion; lengths/capacities < 2^48",
		"strings are an uninterpreted sort with length and equality only; contents of formatted strings are uninterpreted functions of (format, arguments)",
		"pointers of different Go types do not alias; an interior pointer held in a schema field (e.g. a bound pointing into another struct) is not modelled",
		"interface values never hold typed-nil pointers to SDK struct types; map iteration visits each key of the map exactly once in an arbitrary order",
		"functions are verified sequentially, one activation at a time; callee behaviour is taken from its contract (or its body when inlined)",
		"termination is not proved by these obligations",
	}
	assumptions = append(assumptions, keys(assume)...)
	for _, n := range keys(notes) {
		assumptions = append(assumptions, "note: "+n)
	}
	for _, d := range stdDocsUsed {
		assumptions = append(assumptions, "assumed library contract: "+d)
	}
	for _, t := range keys(trusted) {
		assumptions = append(assumptions, "trusted contract (body not verified): "+t)
	}
	if len(samples) == 0 {
		samples = []any{"none"}
	}
	cov := map[string]any{
		"obligations":                       nObl,
		"discharged":                        nDis,
		"checker_cmd":                       fmt.Sprintf("bin/govc check --property %s --tier %s  (per obligation: z3-new | z3 | cvc5 raced on one SMT-LIB query)", prop, tier),
		"trusted_base":                      []string{"golang.org/x/tools/go/ssa v0.29.0", "govc VC generator (/verif/govc)", "z3 5.1.0 / z3 4.8.12 / cvc5 1.0.3", "assumed library contracts listed under assumptions", "/repo/*/verif_contracts.go (specification)"},
		"functions_under_contract":          fns,
		"solvers":                           sc,
		"samples":                           samples,
		"known_findings":                    known,
		"undecided_not_claimed":             undecided,
		"claimed_but_not_generated":         missing,
		"unsupported_functions":             unsupportedFns,
		"inlined_callees":                   keys(inl),
		"callee_contracts_used":             keys(usedCt),
		"scope":                             spec.Scope,
		"not_covered":                       spec.NotCovered,
		"bounded_standins":                  spec.standinReports,
		"replays_of_findings":               spec.regReports,
		"discharged_by_two_or_more_solvers": spec.confirmed2,
	}
	return map[string]any{
		"property_id": prop,
		"tier":        tier,
		"seed":        seed,
		"level":       "proof",
		"coverage":    cov,
		"assumptions": assumptions,
		"wall_s":      round3(wall),
		"violations":  nViol,
	}
}

// writeReplay writes the replay file of a violation. Returns true when a concrete failing input was
// reproduced against the real code.
// replayBudget: number of counterexamples replayed against the real code per run (each costs a go test build)
var replayBudget = 6

func writeReplay(e *Engine, u *Unit, o *Obl, path string, reason string, repo string) bool {
	var sb strings.Builder
	fmt.Fprintf(&sb, "obligation: %s\nclass: %s\nat: %s\nwhat: %s\nverdict: %s (%s)\nsolver: %s %.2fs\n", o.Name, o.Class, o.Pos, o.Note, o.Status, reason, o.Solver, o.Secs)
	fmt.Fprintf(&sb, "\npath condition: %s\ngoal: %s\n", trunc(o.Cond, 400), trunc(o.Goal, 2000))
	if len(o.Model) > 0 {
		sb.WriteString("\nmodel (function inputs as chosen by the solver):\n")
		var ks []string
		for k := range o.Model {
			ks = append(ks, k)
		}
		sort.Strings(ks)
		for _, k := range ks {
			fmt.Fprintf(&sb, "  %s = %s\n", k, o.Model[k])
		}
	}
	sb.WriteString("\nsolver output:\n" + trunc(o.Raw, 4000) + "\n")
	confirmed := false
	if o.Status == "refuted" && replayBudget <= 0 {
		sb.WriteString("\nreplay budget of this run exhausted (only the first violations are replayed)\n")
	} else if o.Status == "refuted" {
		replayBudget--
		if src, ok := u.concretize(o); ok {
			res, out := runReplayTest(repo, u, src)
			fmt.Fprintf(&sb, "\n--- generated replay test (in-package, injected with go test -overlay) ---\n%s\n--- replay result: %s ---\n%s\n", src, res, trunc(out, 3000))
			confirmed = res == "reproduced"
		} else {
			sb.WriteString("\nno concrete input could be derived from the model for this obligation: " + u.replayWhy + "\n")
		}
	}
	os.WriteFile(path, []byte(sb.String()), 0o644)
	return confirmed
}
