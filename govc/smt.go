package main

import (
	"fmt"
	"go/types"
	"sort"
	"strings"
)

// ---------------------------------------------------------------------------------------------
// SMT layer: a query is built as text. Every symbol is declared through World so that a query
// can be cut down to the symbols it uses.
// ---------------------------------------------------------------------------------------------

// Fixed prelude sorts. Ref/Str/TypeTag/Box/RV/Fn are uninterpreted.
const preludeSorts = `(declare-sort Ref 0)
(declare-sort Str 0)
(declare-sort TypeTag 0)
(declare-sort Box 0)
(declare-sort RV 0)
(declare-sort Opaque 0)
(declare-datatypes ((Iface 0)) (((mkIface (ityp TypeTag) (ival Box)))))
(declare-datatypes ((Slice 0)) (((mkSlice (sdata Ref) (soff Int) (slen Int) (scap Int)))))
(declare-datatypes ((Unit 0)) (((unit))))
(declare-const nil Ref)
(declare-const T_nil TypeTag)
(declare-const boxnil Box)
(declare-fun birth (Ref) Int)
(declare-fun strlen (Str) Int)
(declare-fun kind (TypeTag) Int)
(declare-fun named (TypeTag) Bool)
(declare-fun comparable (TypeTag) Bool)
(declare-fun elemT (TypeTag) TypeTag)
(declare-fun keyT (TypeTag) TypeTag)
(declare-fun ptrTo (TypeTag) TypeTag)
(declare-fun sliceOf (TypeTag) TypeTag)
(declare-fun mapOf (TypeTag TypeTag) TypeTag)
(assert (= (birth nil) (- 1)))
(define-fun nilIface () Iface (mkIface T_nil boxnil))
`

type World struct {
	sortDecls  []string          // datatype declarations in dependency order
	sortKnown  map[string]bool   // SMT sort name -> declared
	funDecls   []string          // declare-fun / declare-const in order
	funKnown   map[string]string // name -> decl
	structInfo map[string]*structInfo
	strLits    map[string]string // literal -> const
	strOrder   []string
	tags       map[string]string // type string -> tag const
	tagTypes   map[string]types.Type
	tagOrder   []string
	boxSorts   map[string]bool
	opaqueKind map[string]int
	qual       types.Qualifier
	fresh      int
}

type structInfo struct {
	sort   string
	ctor   string
	fields []string // selector names
	ftypes []types.Type
	st     *types.Struct
}

func newWorld() *World {
	w := &World{sortKnown: map[string]bool{}, funKnown: map[string]string{}, structInfo: map[string]*structInfo{},
		strLits: map[string]string{}, tags: map[string]string{}, tagTypes: map[string]types.Type{}, boxSorts: map[string]bool{}, opaqueKind: map[string]int{}}
	w.qual = func(p *types.Package) string {
		if p == nil {
			return ""
		}
		return p.Name()
	}
	for _, s := range []string{"Ref", "Str", "TypeTag", "Box", "RV", "Opaque", "Iface", "Slice", "Unit", "Int", "Bool", "F64", "F32"} {
		w.sortKnown[s] = true
	}
	return w
}

func (w *World) freshName(prefix string) string {
	w.fresh++
	return fmt.Sprintf("%s!%d", prefix, w.fresh)
}

func quote(s string) string {
	s = strings.ReplaceAll(s, "|", "¦")
	s = strings.ReplaceAll(s, "\\", "/")
	return "|" + s + "|"
}

func (w *World) typeStr(t types.Type) string { return types.TypeString(t, w.qual) }

// declare a function/constant once
var preludeFuns = map[string]bool{"birth": true, "strlen": true, "kind": true, "named": true, "comparable": true, "elemT": true, "keyT": true,
	"ptrTo": true, "sliceOf": true, "mapOf": true, "nil": true, "T_nil": true, "boxnil": true, "nilIface": true}

func (w *World) declFun(name string, args []string, ret string) {
	if _, ok := w.funKnown[name]; ok {
		return
	}
	if preludeFuns[name] {
		return
	}
	var d string
	if len(args) == 0 {
		d = fmt.Sprintf("(declare-const %s %s)", name, ret)
	} else {
		d = fmt.Sprintf("(declare-fun %s (%s) %s)", name, strings.Join(args, " "), ret)
	}
	w.funKnown[name] = d
	w.funDecls = append(w.funDecls, d)
}

func (w *World) newConst(prefix string, sort string) string {
	n := quote(w.freshName(prefix))
	w.declFun(n, nil, sort)
	return n
}

const (
	F64 = "(_ FloatingPoint 11 53)"
	F32 = "(_ FloatingPoint 8 24)"
)

// sortOf maps a Go type to an SMT sort.
func (w *World) sortOf(t types.Type) string {
	switch u := t.Underlying().(type) {
	case *types.Basic:
		switch {
		case u.Info()&types.IsBoolean != 0:
			return "Bool"
		case u.Info()&types.IsInteger != 0:
			return "Int"
		case u.Kind() == types.Float64 || u.Kind() == types.UntypedFloat:
			return F64
		case u.Kind() == types.Float32:
			return F32
		case u.Info()&types.IsString != 0:
			return "Str"
		case u.Kind() == types.UnsafePointer:
			return "Ref"
		case u.Kind() == types.UntypedNil:
			return "Ref"
		}
		return "Opaque"
	case *types.Pointer, *types.Map, *types.Chan, *types.Signature:
		return "Ref"
	case *types.Slice:
		return "Slice"
	case *types.Interface:
		return "Iface"
	case *types.Struct:
		return w.structSort(t)
	case *types.Array:
		return fmt.Sprintf("(Array Int %s)", w.sortOf(u.Elem()))
	case *types.Tuple:
		return "Opaque"
	}
	return "Opaque"
}

func isReflectValue(t types.Type) bool {
	n, ok := t.(*types.Named)
	return ok && n.Obj().Pkg() != nil && n.Obj().Pkg().Path() == "reflect" && n.Obj().Name() == "Value"
}

// structSort declares (once) a datatype for a struct type. Structs outside the analysed packages
// are opaque (one uninterpreted sort per type), except a few that are modelled.
func (w *World) structSort(t types.Type) string {
	key := w.typeStr(t)
	if isReflectValue(t) {
		if _, ok := w.structInfo[key]; !ok {
			w.structInfo[key] = &structInfo{sort: "RV"}
		}
		return "RV"
	}
	if si, ok := w.structInfo[key]; ok {
		return si.sort
	}
	st := t.Underlying().(*types.Struct)
	if n, ok := t.(*types.Named); ok && n.Obj().Pkg() != nil && !isOwnPkg(n.Obj().Pkg().Path()) {
		// opaque external struct
		s := quote("ext:" + key)
		if !w.sortKnown[s] {
			w.sortKnown[s] = true
			w.sortDecls = append(w.sortDecls, fmt.Sprintf("(declare-sort %s 0)", s))
		}
		w.structInfo[key] = &structInfo{sort: s}
		return s
	}
	si := &structInfo{sort: quote("S:" + key), ctor: quote("mk:" + key), st: st}
	w.structInfo[key] = si
	if st.NumFields() == 0 {
		w.sortDecls = append(w.sortDecls, fmt.Sprintf("(declare-datatypes ((%s 0)) (((%s))))", si.sort, si.ctor))
		w.sortKnown[si.sort] = true
		return si.sort
	}
	var fs []string
	for i := 0; i < st.NumFields(); i++ {
		f := st.Field(i)
		fsort := w.sortOf(f.Type()) // declares nested sorts first
		sel := quote(key + "." + f.Name())
		si.fields = append(si.fields, sel)
		si.ftypes = append(si.ftypes, f.Type())
		fs = append(fs, fmt.Sprintf("(%s %s)", sel, fsort))
	}
	w.sortDecls = append(w.sortDecls, fmt.Sprintf("(declare-datatypes ((%s 0)) (((%s %s))))", si.sort, si.ctor, strings.Join(fs, " ")))
	w.sortKnown[si.sort] = true
	return si.sort
}

var ownPkgPrefixes = []string{"go.flow.arcalot.io/pluginsdk", "codegen"}

func isOwnPkg(path string) bool {
	for _, p := range ownPkgPrefixes {
		if path == p || strings.HasPrefix(path, p+"/") {
			return true
		}
	}
	return false
}

func (w *World) structOf(t types.Type) *structInfo {
	w.structSort(t)
	return w.structInfo[w.typeStr(t)]
}

// field selection / update on a struct value term
func (w *World) fieldSel(t types.Type, i int, term string) string {
	si := w.structOf(t)
	if si.ctor == "" {
		// opaque: uninterpreted accessor
		fn := quote(fmt.Sprintf("extfield:%s.%d", w.typeStr(t), i))
		st := t.Underlying().(*types.Struct)
		w.declFun(fn, []string{si.sort}, w.sortOf(st.Field(i).Type()))
		return fmt.Sprintf("(%s %s)", fn, term)
	}
	return fmt.Sprintf("(%s %s)", si.fields[i], term)
}

func (w *World) fieldUpd(t types.Type, i int, term string, v string) string {
	si := w.structOf(t)
	if si.ctor == "" {
		fn := quote(fmt.Sprintf("extupd:%s.%d", w.typeStr(t), i))
		st := t.Underlying().(*types.Struct)
		w.declFun(fn, []string{si.sort, w.sortOf(st.Field(i).Type())}, si.sort)
		return fmt.Sprintf("(%s %s %s)", fn, term, v)
	}
	var parts []string
	for j := range si.fields {
		if j == i {
			parts = append(parts, v)
		} else {
			parts = append(parts, fmt.Sprintf("(%s %s)", si.fields[j], term))
		}
	}
	return fmt.Sprintf("(%s %s)", si.ctor, strings.Join(parts, " "))
}

// zero value of a Go type
func (w *World) zero(t types.Type) string {
	s := w.sortOf(t)
	switch s {
	case "Bool":
		return "false"
	case "Int":
		return "0"
	case F64:
		return "(_ +zero 11 53)"
	case F32:
		return "(_ +zero 8 24)"
	case "Str":
		return w.strLit("")
	case "Ref":
		return "nil"
	case "Slice":
		return "(mkSlice nil 0 0 0)"
	case "Iface":
		return "nilIface"
	case "Unit":
		return "unit"
	}
	if s == "RV" {
		w.declFun("rv_zero", nil, "RV")
		return "rv_zero"
	}
	if st, ok := t.Underlying().(*types.Struct); ok {
		si := w.structOf(t)
		if si != nil && si.ctor != "" {
			if len(si.fields) == 0 {
				return si.ctor
			}
			var parts []string
			for i := 0; i < st.NumFields(); i++ {
				parts = append(parts, w.zero(st.Field(i).Type()))
			}
			return fmt.Sprintf("(%s %s)", si.ctor, strings.Join(parts, " "))
		}
	}
	if a, ok := t.Underlying().(*types.Array); ok {
		return w.constArray(s, w.sortOf(a.Elem()), w.zero(a.Elem()))
	}
	z := quote("zero:" + w.typeStr(t))
	w.declFun(z, nil, s)
	return z
}

// constArray: an array holding v everywhere. cvc5 only accepts value arguments for (as const ...), so for
// element sorts without literals a fresh, unconstrained array is used instead (over-approximation).
func (w *World) constArray(arrSort, elemSort, v string) string {
	switch elemSort {
	case "Bool", "Int", F64, F32:
		return fmt.Sprintf("((as const %s) %s)", arrSort, v)
	}
	return w.newConst("zeroarr", arrSort)
}

func (w *World) strLit(s string) string {
	if c, ok := w.strLits[s]; ok {
		return c
	}
	c := quote(fmt.Sprintf("str%d:%s", len(w.strLits), trunc(s, 24)))
	w.strLits[s] = c
	w.strOrder = append(w.strOrder, s)
	w.declFun(c, nil, "Str")
	return c
}

func trunc(s string, n int) string {
	r := []rune(s)
	if len(r) > n {
		r = r[:n]
	}
	out := make([]rune, 0, len(r))
	for _, c := range r {
		if c < 32 || c > 126 {
			c = '_'
		}
		out = append(out, c)
	}
	return string(out)
}

// tag constant for a concrete Go type
func (w *World) tag(t types.Type) string {
	key := w.typeStr(t)
	if c, ok := w.tags[key]; ok {
		return c
	}
	c := quote("tag:" + key)
	w.tags[key] = c
	w.tagTypes[key] = t
	w.tagOrder = append(w.tagOrder, key)
	w.declFun(c, nil, "TypeTag")
	// make sure element/key tags exist so that structure facts can be stated
	switch u := t.(type) {
	case *types.Pointer:
		w.tag(u.Elem())
	case *types.Slice:
		w.tag(u.Elem())
	case *types.Map:
		w.tag(u.Key())
		w.tag(u.Elem())
	}
	return c
}

// opaqueTag: a tag for a type outside the analysed packages that is only known by name
func (w *World) opaqueTag(name string, kind int) string {
	if c, ok := w.tags[name]; ok {
		return c
	}
	c := quote("tag:" + name)
	w.tags[name] = c
	w.tagTypes[name] = nil
	w.opaqueKind[name] = kind
	w.tagOrder = append(w.tagOrder, name)
	w.declFun(c, nil, "TypeTag")
	return c
}

// reflect.Kind numbering
func reflectKind(t types.Type) int {
	switch u := t.Underlying().(type) {
	case *types.Basic:
		switch u.Kind() {
		case types.Bool:
			return 1
		case types.Int:
			return 2
		case types.Int8:
			return 3
		case types.Int16:
			return 4
		case types.Int32:
			return 5
		case types.Int64:
			return 6
		case types.Uint:
			return 7
		case types.Uint8:
			return 8
		case types.Uint16:
			return 9
		case types.Uint32:
			return 10
		case types.Uint64:
			return 11
		case types.Uintptr:
			return 12
		case types.Float32:
			return 13
		case types.Float64:
			return 14
		case types.Complex64:
			return 15
		case types.Complex128:
			return 16
		case types.String:
			return 24
		case types.UnsafePointer:
			return 26
		}
	case *types.Array:
		return 17
	case *types.Chan:
		return 18
	case *types.Signature:
		return 19
	case *types.Interface:
		return 20
	case *types.Map:
		return 21
	case *types.Pointer:
		return 22
	case *types.Slice:
		return 23
	case *types.Struct:
		return 25
	}
	return 0
}

// boxing: one pair of functions per SMT sort
func (w *World) boxFn(sort string) (string, string) {
	nm := sortShort(sort)
	b, u := quote("box:"+nm), quote("unbox:"+nm)
	if !w.boxSorts[sort] {
		w.boxSorts[sort] = true
		w.declFun(b, []string{sort}, "Box")
		w.declFun(u, []string{"Box"}, sort)
	}
	return b, u
}

func sortShort(s string) string {
	switch s {
	case F64:
		return "F64"
	case F32:
		return "F32"
	}
	return strings.Trim(s, "|")
}

// facts about all tags and string literals used (ground, quantifier free)
func (w *World) groundFacts() []string {
	var out []string
	if len(w.strOrder) > 1 {
		var cs []string
		for _, s := range w.strOrder {
			cs = append(cs, w.strLits[s])
		}
		out = append(out, fmt.Sprintf("(distinct %s)", strings.Join(cs, " ")))
	}
	for _, s := range w.strOrder {
		out = append(out, fmt.Sprintf("(= (strlen %s) %d)", w.strLits[s], len(s)))
	}
	// tags may be added while we iterate (elem tags)
	for i := 0; i < len(w.tagOrder); i++ {
		key := w.tagOrder[i]
		t := w.tagTypes[key]
		c := w.tags[key]
		if t == nil {
			out = append(out, fmt.Sprintf("(= (kind %s) %d)", c, w.opaqueKind[key]))
			if w.opaqueKind[key] == 22 {
				out = append(out, fmt.Sprintf("(comparable %s)", c))
			}
			continue
		}
		out = append(out, fmt.Sprintf("(= (kind %s) %d)", c, reflectKind(t)))
		_, isNamed := t.(*types.Named)
		out = append(out, fmt.Sprintf("(= (named %s) %v)", c, isNamed))
		out = append(out, fmt.Sprintf("(= (comparable %s) %v)", c, types.Comparable(t)))
		switch u := t.(type) {
		case *types.Pointer:
			out = append(out, fmt.Sprintf("(= (elemT %s) %s)", c, w.tag(u.Elem())))
			out = append(out, fmt.Sprintf("(= (ptrTo %s) %s)", w.tag(u.Elem()), c))
		case *types.Slice:
			out = append(out, fmt.Sprintf("(= (elemT %s) %s)", c, w.tag(u.Elem())))
			out = append(out, fmt.Sprintf("(= (sliceOf %s) %s)", w.tag(u.Elem()), c))
		case *types.Map:
			out = append(out, fmt.Sprintf("(= (elemT %s) %s)", c, w.tag(u.Elem())))
			out = append(out, fmt.Sprintf("(= (keyT %s) %s)", c, w.tag(u.Key())))
			out = append(out, fmt.Sprintf("(= (mapOf %s %s) %s)", w.tag(u.Key()), w.tag(u.Elem()), c))
		}
	}
	var cs []string
	cs = append(cs, "T_nil")
	keys := append([]string{}, w.tagOrder...)
	sort.Strings(keys)
	for _, k := range keys {
		cs = append(cs, w.tags[k])
	}
	if len(cs) > 1 {
		out = append(out, fmt.Sprintf("(distinct %s)", strings.Join(cs, " ")))
	}
	out = append(out, "(= (kind T_nil) 0)")
	return out
}

// ---- small term helpers ------------------------------------------------------------------------

func and(xs ...string) string {
	var ys []string
	for _, x := range xs {
		if x == "true" || x == "" {
			continue
		}
		if x == "false" {
			return "false"
		}
		ys = append(ys, x)
	}
	switch len(ys) {
	case 0:
		return "true"
	case 1:
		return ys[0]
	}
	return "(and " + strings.Join(ys, " ") + ")"
}

func or(xs ...string) string {
	var ys []string
	for _, x := range xs {
		if x == "false" || x == "" {
			continue
		}
		if x == "true" {
			return "true"
		}
		ys = append(ys, x)
	}
	switch len(ys) {
	case 0:
		return "false"
	case 1:
		return ys[0]
	}
	return "(or " + strings.Join(ys, " ") + ")"
}

func not(x string) string {
	switch x {
	case "true":
		return "false"
	case "false":
		return "true"
	}
	if strings.HasPrefix(x, "(not ") && balancedTail(x[5:len(x)-1]) {
		return x[5 : len(x)-1]
	}
	return "(not " + x + ")"
}

func balancedTail(s string) bool {
	d := 0
	inbar := false
	for i, c := range s {
		if c == '|' {
			inbar = !inbar
		}
		if inbar {
			continue
		}
		if c == '(' {
			d++
		}
		if c == ')' {
			d--
			if d == 0 && i != len(s)-1 {
				return false
			}
			if d < 0 {
				return false
			}
		}
		if c == ' ' && d == 0 {
			return false
		}
	}
	return d == 0
}

func implies(a, b string) string {
	if a == "true" {
		return b
	}
	if b == "true" {
		return "true"
	}
	return "(=> " + a + " " + b + ")"
}

func eq(a, b string) string { return "(= " + a + " " + b + ")" }

func ite(c, a, b string) string {
	if c == "true" {
		return a
	}
	if c == "false" {
		return b
	}
	if a == b {
		return a
	}
	return "(ite " + c + " " + a + " " + b + ")"
}

func intLit(v int64) string {
	if v < 0 {
		if v == -9223372036854775808 {
			return "(- 9223372036854775808)"
		}
		return fmt.Sprintf("(- %d)", -v)
	}
	return fmt.Sprintf("%d", v)
}

func uintLit(v uint64) string { return fmt.Sprintf("%d", v) }

// symbols scans a term for symbols (plain and |quoted|)
func symbols(s string, f func(string)) {
	i := 0
	for i < len(s) {
		c := s[i]
		switch {
		case c == '|':
			j := strings.IndexByte(s[i+1:], '|')
			if j < 0 {
				return
			}
			f(s[i : i+j+2])
			i += j + 2
		case c == '(' || c == ')' || c == ' ' || c == '\n' || c == '\t':
			i++
		default:
			j := i
			for j < len(s) && s[j] != '(' && s[j] != ')' && s[j] != ' ' && s[j] != '\n' && s[j] != '|' {
				j++
			}
			f(s[i:j])
			i = j
		}
	}
}
