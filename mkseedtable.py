#!/usr/bin/env python3
"""mkseedtable.py: rewrites the table of DESIGN.md section 7 from seeded/*/meta.json. Rows already in the table keep
their hand-written description; seeds with a "summary" field in meta.json get a row from it. The last column is the
first failing obligation recorded by seedcheck.py (property's own check first)."""
import json, glob, os, re
V = os.path.dirname(os.path.abspath(__file__))
d = open(V + "/DESIGN.md").read()
start = d.index("| change | what it does | first failing obligation |")
end = start
lines = d[start:].split("\n")
rows = {}
n = 0
for l in lines:
    if not l.startswith("|"):
        break
    n += 1
    m = re.match(r"\| (C\d\d-\d+) \| (.*) \| (.*) \|$", l)
    if m:
        rows[m.group(1)] = (m.group(2), m.group(3))
end = start + len("\n".join(lines[:n]))
def key(s):
    a, b = s.split("-"); return (a, int(b))
for mdir in glob.glob(V + "/seeded/*/"):
    sid = os.path.basename(mdir.rstrip("/"))
    m = json.load(open(mdir + "meta.json"))
    first = None
    order = [m["property"]] + [p for p in m.get("checks_run", {}) if p != m["property"]]
    for p in order:
        r = m.get("checks_run", {}).get(p)
        if r and r["violations"]:
            v = r["violations"][0]
            ob = re.search(r"obligation=(\S+)", v)
            first = "%s: `%s`" % (p, ob.group(1) if ob else ("bounded stand-in" if "stand-in" in v else v[:60]))
            break
    if sid in rows and "summary" not in m:
        continue
    if "summary" in m:
        rows[sid] = (m["summary"], first or (rows.get(sid, ("", "MISSED"))[1]))
out = ["| change | what it does | first failing obligation |", "|---|---|---|"]
for sid in sorted(rows, key=key):
    out.append("| %s | %s | %s |" % (sid, rows[sid][0], rows[sid][1]))
open(V + "/DESIGN.md", "w").write(d[:start] + "\n".join(out) + d[end:])
print(len(rows), "rows")
