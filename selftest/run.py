#!/usr/bin/env python3
"""selftest/run.py [-j N] [filter]
Must-fail corpus: applies every deliberate property-breaking change (selftest/mutants/*.patch, written by hand,
and seeded/<id>-<k>/patch.diff, written by independent sub-agents) to a scratch worktree of /repo, runs the
check(s) of the property it breaks against that worktree (govc check --repo) and requires a VIOLATION line.
A change whose check stays silent is reported as MISSED and the script exits 1. The patches under
selftest/harmless/ are semantics-preserving edits (renamed locals, reordered independent statements, an added no-op):
there every related check must stay silent (QUIET), an ALARM also makes the script exit 1. Worktrees are removed."""
import glob, json, os, re, subprocess, sys, tempfile, shutil
from concurrent.futures import ThreadPoolExecutor
ENV = dict(os.environ, GOFLAGS="-mod=mod", GOPROXY="off", GOSUMDB="off", GOTOOLCHAIN="local")
V = os.path.dirname(os.path.dirname(os.path.abspath(__file__)))
CT = ["schema/verif_contracts.go", "schema/verif_instances.go", "schema/verif_harness.go", "atp/verif_contracts.go", "atp/verif_harness.go", "cmd/arcaflow-codegen/verif_contracts.go"]

def sh(cmd, **kw):
    p = subprocess.run(cmd, env=ENV, stdout=subprocess.PIPE, stderr=subprocess.STDOUT, **kw)
    return p.returncode, p.stdout.decode(errors="replace")

def one(item):
    name, patch, props = item
    wt = tempfile.mkdtemp(prefix="govc-self.", dir="/tmp"); os.rmdir(wt)
    sh(["git", "-C", "/repo", "worktree", "add", "-q", "--detach", wt, "HEAD"])
    try:
        for f in CT:
            if os.path.exists("/repo/" + f):
                os.makedirs(os.path.dirname(os.path.join(wt, f)), exist_ok=True)
                shutil.copy("/repo/" + f, os.path.join(wt, f))
        rc, out = sh(["git", "-C", wt, "apply", "--whitespace=nowarn", patch])
        if rc != 0:
            return name, "STALE", "patch no longer applies"
        hits = []
        if name.startswith("harmless/"):
            # a semantics-preserving edit: every check named must stay silent
            for p in props:
                rc, out = sh([V + "/bin/govc", "check", "--repo", wt, "--property", p, "--no-evidence", "--replay-dir", os.path.join(wt, ".replay")], timeout=1800)
                v = [l for l in out.splitlines() if l.startswith("VIOLATION") or l.startswith("ERROR")]
                if rc != 0 or v:
                    return name, "ALARM", f"{p}: exit {rc} " + (v[0][:200] if v else "")
            return name, "QUIET", " ".join(props)
        for p in props:
            rc, out = sh([V + "/bin/govc", "check", "--repo", wt, "--property", p, "--no-evidence", "--replay-dir", os.path.join(wt, ".replay")], timeout=1800)
            n = len([l for l in out.splitlines() if l.startswith("VIOLATION")])
            if rc == 1 and n:
                hits.append(f"{p}:{n}")
            elif rc not in (0, 1):
                return name, "ERROR", f"{p} exit {rc}: " + out[-300:]
        return name, ("CAUGHT" if hits else "MISSED"), " ".join(hits)
    finally:
        sh(["git", "-C", "/repo", "worktree", "remove", "--force", wt])

def main():
    args = sys.argv[1:]; j = 4
    if args and args[0] == "-j":
        j = int(args[1]); args = args[2:]
    flt = args[0] if args else ""
    items = []
    for p in sorted(glob.glob(V + "/selftest/mutants/*.patch")):
        n = os.path.basename(p)[:-6]
        items.append(("mutant/" + n, p, [n.split("-")[0]]))
    for d in sorted(glob.glob(V + "/seeded/*/")):
        n = os.path.basename(d.rstrip("/"))
        meta = json.load(open(d + "meta.json"))
        props = meta.get("caught_by") or list(meta.get("checks_run", {}).keys()) or [meta["property"]]
        items.append(("seeded/" + n, d + "patch.diff", props))
    related = {"C19": ["C19"], "C07": ["C07"], "C08": ["C08", "C06"], "C03": ["C03", "C01", "C04", "C12"], "C17": ["C17", "C02", "C04", "C12"], "C16": ["C16", "C04", "C12"], "C11": ["C11", "C07", "C04"], "C12": ["C12", "C13", "C04", "C03"], "C02": ["C02", "C01", "C04", "C12", "C17"]}
    for p in sorted(glob.glob(V + "/selftest/harmless/*.patch")):
        n = os.path.basename(p)[:-6]
        items.append(("harmless/" + n, p, related.get(n.split("-")[0], [n.split("-")[0]])))
    items = [i for i in items if flt in i[0]]
    bad = 0
    with ThreadPoolExecutor(j) as ex:
        for name, res, info in ex.map(one, items):
            print(f"{res:7s} {name} {info}", flush=True)
            if res in ("MISSED", "ERROR", "ALARM"):
                bad += 1
    print(f"selftest: {len(items)} changes, {bad} missed/error")
    return 1 if bad else 0
if __name__ == "__main__":
    sys.exit(main())
