#!/usr/bin/env python3
"""selftest/quiet_all.py [-j N] <patch>... : applies each behaviour-preserving patch to a scratch worktree of /repo and runs
EVERY registered check against it; any VIOLATION / ERROR / non-zero exit is an ALARM (a false alarm if the patch really
preserves behaviour). Worktrees are removed."""
import json, os, subprocess, sys, tempfile, shutil
from concurrent.futures import ThreadPoolExecutor
ENV = dict(os.environ, GOFLAGS="-mod=mod", GOPROXY="off", GOSUMDB="off", GOTOOLCHAIN="local")
V = os.path.dirname(os.path.dirname(os.path.abspath(__file__)))
CT = ["schema/verif_contracts.go", "schema/verif_instances.go", "schema/verif_harness.go", "atp/verif_contracts.go", "cmd/arcaflow-codegen/verif_contracts.go"]
PROPS = [c["property_id"] for c in json.load(open(V + "/MANIFEST.json"))["checks"]]

def sh(cmd, **kw):
    p = subprocess.run(cmd, env=ENV, stdout=subprocess.PIPE, stderr=subprocess.STDOUT, **kw)
    return p.returncode, p.stdout.decode(errors="replace")

def one(patch):
    wt = tempfile.mkdtemp(prefix="govc-quiet.", dir="/tmp"); os.rmdir(wt)
    sh(["git", "-C", "/repo", "worktree", "add", "-q", "--detach", wt, "HEAD"])
    alarms = []
    try:
        for f in CT:
            if os.path.exists("/repo/" + f):
                shutil.copy("/repo/" + f, os.path.join(wt, f))
        rc, out = sh(["git", "-C", wt, "apply", "--whitespace=nowarn", patch])
        if rc != 0:
            return patch, ["patch does not apply: " + out[:200]]
        for p in PROPS:
            rc, out = sh([V + "/bin/govc", "check", "--repo", wt, "--property", p, "--no-evidence", "--replay-dir", os.path.join(wt, ".replay")], timeout=2400)
            bad = [l for l in out.splitlines() if l.startswith("VIOLATION") or l.startswith("ERROR")]
            if rc != 0 or bad:
                alarms.append(f"{p}: exit {rc} " + " || ".join(b.replace(wt, "<scratch>")[:260] for b in bad[:3]))
    finally:
        sh(["git", "-C", "/repo", "worktree", "remove", "--force", wt])
    return patch, alarms

def main():
    args = sys.argv[1:]; j = 3
    args = [os.path.abspath(a) if not a.startswith("-") and os.path.exists(a) else a for a in args]
    if args and args[0] == "-j":
        j = int(args[1]); args = args[2:]
    bad = 0
    with ThreadPoolExecutor(j) as ex:
        for patch, alarms in ex.map(one, args):
            if alarms:
                bad += 1
                print("ALARM", patch)
                for a in alarms:
                    print("   ", a)
            else:
                print("QUIET", patch, "(all %d checks)" % len(PROPS))
            sys.stdout.flush()
    return 1 if bad else 0
if __name__ == "__main__":
    sys.exit(main())
