#!/usr/bin/env python3
"""seedcheck.py <seed-dir> <property> <k> [--as=N] [check-properties...]

Confirms a seeded change produced by a sub-agent in a scratch worktree (suite passes with the change, the
demonstration fails with it and passes without it), stores it under /verif/seeded/<property>-<k>/ and runs
the named checks (default: the property itself) against the changed tree with --repo. Nothing is ever applied
to /repo itself."""
import json, os, shutil, subprocess, sys, tempfile, re

ENV = dict(os.environ, GOFLAGS="-mod=mod", GOPROXY="off", GOSUMDB="off", GOTOOLCHAIN="local")

def sh(cmd, cwd=None, timeout=600):
    p = subprocess.run(cmd, cwd=cwd, env=ENV, shell=isinstance(cmd, str), stdout=subprocess.PIPE, stderr=subprocess.STDOUT, timeout=timeout)
    return p.returncode, p.stdout.decode(errors="replace")

def main():
    seed, prop, k = sys.argv[1], sys.argv[2], sys.argv[3]
    rest = sys.argv[4:]
    store_as = k
    if rest and rest[0].startswith("--as="):
        store_as = rest[0][5:]
        rest = rest[1:]
    checks = rest or [prop]
    diff = os.path.join(seed, f"change_{k}.diff")
    demo = os.path.join(seed, f"demo_{k}_test.go")
    note = os.path.join(seed, f"change_{k}.md")
    pkg = "schema"
    src = open(demo).read()
    m = re.search(r"^package (\w+)", src, re.M)
    if m:
        pkg = m.group(1).replace("_test", "")
    pkgdir = {"schema": "schema", "atp": "atp", "main": "cmd/arcaflow-codegen"}.get(pkg, pkg)
    wt = tempfile.mkdtemp(prefix="govc-seed.", dir="/tmp")
    os.rmdir(wt)
    sh(["git", "-C", "/repo", "worktree", "add", "-q", "--detach", wt, "HEAD"])
    ran = []
    try:
        testname = f"TestSeeded{k}"
        target = os.path.join(wt, pkgdir, f"zz_seeded_{k}_test.go")
        moddir = wt if pkgdir != "cmd/arcaflow-codegen" else os.path.join(wt, pkgdir)
        pkgarg = "./" + pkgdir if pkgdir != "cmd/arcaflow-codegen" else "."
        # demo passes without the change
        shutil.copy(demo, target)
        rc0, out0 = sh(f"go test -vet=off -count=1 -timeout 120s -run '^{testname}$' {pkgarg}", cwd=moddir)
        ran.append(f"demo without change: rc={rc0}")
        os.remove(target)
        # apply
        rca, outa = sh(["git", "-C", wt, "apply", "--whitespace=nowarn", diff])
        if rca != 0:
            print("PATCH DOES NOT APPLY", outa)
            return 2
        rcb, outb = sh("go build ./... && go test -vet=off -count=1 -timeout 300s ./...", cwd=wt)
        rcc, outc = sh("go test -vet=off -count=1 -timeout 300s ./...", cwd=os.path.join(wt, "cmd/arcaflow-codegen"))
        ran.append(f"suite with change: rc={rcb} codegen rc={rcc}")
        shutil.copy(demo, target)
        rc1, out1 = sh(f"go test -vet=off -count=1 -timeout 120s -run '^{testname}$' {pkgarg}", cwd=moddir)
        ran.append(f"demo with change: rc={rc1}")
        os.remove(target)
        confirmed = (rc0 == 0 and rcb == 0 and rcc == 0 and rc1 != 0)
        print(f"seed {prop}-{k}: demo-without={rc0} suite-with={rcb}/{rcc} demo-with={rc1} confirmed={confirmed}")
        if not confirmed:
            print(out0[-800:] if rc0 else "", outb[-800:] if rcb else "", out1[-400:] if rc1 == 0 else "")
        # copy current contract files (uncommitted edits included)
        for f in ["schema/verif_contracts.go", "schema/verif_instances.go", "schema/verif_harness.go", "atp/verif_contracts.go", "atp/verif_harness.go", "cmd/arcaflow-codegen/verif_contracts.go"]:
            if os.path.exists("/repo/" + f):
                shutil.copy("/repo/" + f, os.path.join(wt, f))
        results = {}
        for c in checks:
            rc, out = sh(["/verif/bin/govc", "check", "--repo", wt, "--property", c, "--no-evidence", "--replay-dir", os.path.join(wt, ".replay")], timeout=1800)
            viol = [l for l in out.splitlines() if l.startswith("VIOLATION")]
            results[c] = {"exit": rc, "violations": [re.sub(r"replay=\S+", "", v).replace(wt, "<scratch>")[:300] for v in viol]}
            print(f"  check {c}: exit={rc} violations={len(viol)}")
            for v in viol[:4]:
                print("    ", re.sub(r"replay=\S+ ", "", v)[:220])
        if confirmed:
            dst = f"/verif/seeded/{prop}-{store_as}"
            os.makedirs(dst, exist_ok=True)
            shutil.copy(diff, os.path.join(dst, "patch.diff"))
            shutil.copy(demo, os.path.join(dst, os.path.basename(demo)))
            meta = {"property": prop, "breaks": open(note).read()[:3000] if os.path.exists(note) else "",
                    "source": "independent sub-agent given only the property text and a scratch worktree",
                    "confirmed_by": ran, "test": testname, "package": pkg,
                    "checks_run": results, "caught": any(r["violations"] for r in results.values())}
            json.dump(meta, open(os.path.join(dst, "meta.json"), "w"), indent=1)
    finally:
        sh(["git", "-C", "/repo", "worktree", "remove", "--force", wt])
    return 0

if __name__ == "__main__":
    sys.exit(main())
